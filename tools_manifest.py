#!/usr/bin/env python3
"""Regenerates MANIFEST.json from the table below (keeps the manifest valid at all times)."""
import json, os, subprocess
ROOT = os.path.dirname(os.path.abspath(__file__))
ALL = [f"C{i:02d}" for i in range(1, 21)]

CLAIMS = {
 "C19": dict(
    category="proof",
    text=("Lean theorems over the Path/Tree models, for all trees, positions and paths: parse(toText p)=p for "
          "well-formed paths (relative flag kept), equal paths hash equally, relative round-trip, and in a well-formed "
          "tree the path of every position resolves to that position without approximation. The models (loader, path, "
          "resolution) are tied to the code on every run: the audit hook's rows for every object / reference / sampled "
          "pair of every corpus story (both compilers), generated programs and random trees must equal the rows the "
          "Lean model computes; the same rows are the direct oracle of the property on the real code."),
    design_ref="DESIGN.md section 5 C19",
    note=("Trusted: Lean kernel; axioms propext/Classical.choice/Quot.sound only; harness+driver+check.py; audit hook; "
          "object identity = tree position; SipHash collisions ignored; hypotheses WFTree/Path.WF are evaluated by an "
          "executable checker on every audited story (not yet proved equivalent to the Prop)."),
    technique="Lean 4 proof over hand-written model + differential correspondence (audit rows) against the real code"),

 "C09": dict(
    category="proof",
    text=("One frame theorem per host entry point of the Lean model of the API (Ink/Api): a rejected call returns the "
          "story it was given (literally; up to the cosmetic choice index for choose_choice_index; up to the "
          "validated flag before the first validation) and never a panic; 18 theorems incl. all refusals during an "
          "unfinished continue_async. The whole interpreter + API model is tied to the code on every run by "
          "transcript equality (results, callbacks, normalised save after every step) on histories with invalid "
          "calls of every kind injected at random positions (every other history inside a named flow; refused loads of "
          "damaged saves); the direct oracle is the lockstep of the same history with and without the injected calls "
          "on the real code. Known finding C09-partial-load: a refused load_state is NOT atomic (a save damaged in a "
          "field read late has replaced flows and variables when Err is returned); the model does the same and "
          "Proofs/C09Load.lean proves the negation of atomicity on a concrete story."),
    design_ref="DESIGN.md section 5 C09",
    note=("Trusted: Lean kernel; axioms within propext/Classical.choice/Quot.sound; harness, driver and canonicaliser "
          "(observer events as sets, cosmetic choice index ignored in lockstep); StatePatch abstracted to a value "
          "copy; generators give the histories that tie model and code."),
    technique="Lean 4 frame theorems over a hand-written API model + differential correspondence + lockstep oracle"),
 "C13": dict(
    category="proof",
    text=("Theorems about the delivery block and its lifting to a whole continue in the Lean model: with a handler the "
          "pending errors then warnings are handed over exactly once and forgotten (also in a live look-ahead "
          "snapshot), so nothing earlier can be delivered again; without a handler an error makes the continue fail "
          "and stays readable, warnings never fail it; an error stops the story. Tie: transcripts (messages compared "
          "as text) of fault-raising generated programs with and without handler. Oracle: deliveries with a handler "
          "equal, continue by continue, the messages newly readable without one."),
    design_ref="DESIGN.md section 5 C13",
    note="As C09. Time-limited continues are excluded from C13's oracle (a pause delivers what has been raised so far).",
    technique="Lean 4 theorems over the continue/delivery model + differential correspondence + two-run oracle"),
 "C17": dict(
    category="proof",
    text=("quiescent_invariant (every blocking continue that returns leaves no snapshot, recursion count, async flag "
          "or unsafe flag — also when it finishes a paused time-limited continue) proved by induction over the "
          "stepping loop for all programs and states, and reset_eq_fresh (reset_state on a quiescent story = "
          "construction with the same seed and host configuration). Tie: transcripts incl. a quiescence probe and "
          "normalised saves over histories with saves/loads, flow switches, path jumps, sliced continues, errors. "
          "Oracle: lockstep of the reset story with a fresh instance over random continuations."),
    design_ref="DESIGN.md section 5 C17",
    note="As C09. The real reset draws a random seed; the harness sets the seed explicitly on both sides.",
    technique="Lean 4 invariant proof by induction over the continue loop + differential correspondence + lockstep oracle"),
 "C11": dict(
    category="proof",
    text=("The global store of the model carries its change-tracking invariant in its type (every store value the "
          "interpreter can hold satisfies: while a batch is observed, a global that differs from its value at the start "
          "of the batch is recorded, and no name is recorded twice); theorems lift this to the notifications of a "
          "completed outermost continue (every changed global is handed over once with its current value), to host "
          "assignments (immediate, once per observer), to observer removal and to load. Tie: transcripts with "
          "observer churn. Oracle: notifications vs polled differences on the real code."),
    design_ref="DESIGN.md section 5 C11",
    note=("As C09. A notification whose value equals the polled value before the call is ignored on both sides (the "
          "engine decides 'changed' by Rc identity, which the model does not have)."),
    technique="Lean 4 invariant carried by the store type + theorems + differential correspondence + polling oracle"),
 "C12": dict(
    category="proof",
    text=("Theorems about callExternalFunction for every state: a function bound as not look-ahead-safe is not invoked "
          "while a snapshot exists (only the rewind flag is raised) and is refused with an error inside string "
          "evaluation; a safe function is invoked anywhere with the top n stack values in push order, exactly one "
          "call event, counter +1; unbound externals divert to the ink fallback or give an error, never a panic. "
          "Tie: transcripts (calls logged with arguments and lines delivered) under five binding configurations. "
          "Oracle: a hand-written timing probe with known call timing, refusal / unbound behaviour on generated programs."),
    design_ref="DESIGN.md section 5 C12",
    note="As C09. Safe and unsafe bindings are not compared with each other (an unsafe function ends the line before it).",
    technique="Lean 4 theorems over the external-call model + differential correspondence + timing probe"),
 "C16": dict(
    category="proof",
    text=("Proved: completion of a host evaluation restores the pending output stream exactly and drops what the "
          "function left on the evaluation stack; the returned text is the concatenation of the function's lines; "
          "unknown / blank names are refused unchanged. Frame property (Proofs/C16Frame.lean, Hoare logic over the step "
          "monad with the invariant Good: every thread begins with the untouched skeletons of the elements below the "
          "evaluation frame, followed by that frame; pending choices = the old ones ++ choices whose threads have "
          "that shape): running out of content, ~ret / ->->, choice points, external calls, diverts and every control "
          "command except LIST_RANDOM keep it or end the story (T_nextContent, T_popTail, T_processChoice, "
          "T_callExternalFunction, T_plfc_divert, T_performLogicAndFlowControl_partial); the state evaluate_function "
          "builds satisfies it (good_after_push). NOT proved (partial): the lifting to the whole step, the continue "
          "loop and evaluate_function end to end, and LIST_RANDOM; what can change on an ok result is stated in "
          "DESIGN.md Ch.8 (choices / threads created inside the function, temporaries reached through a variable "
          "pointer). The property is decided by the tie (normalised save after every step) and by the lockstep "
          "oracle with evaluations injected at random boundaries, each repeated."),
    design_ref="DESIGN.md section 5 C16",
    note="As C09. Only functions the generator marks pure are evaluated; arguments have the declared parameter types.",
    technique="Lean 4 theorems (partial) + differential correspondence + lockstep oracle"),
 "C10": dict(
    category="proof",
    text=("Theorems over the flow map: a switch parks the current flow untouched and touches no other parked flow; "
          "switching away and back is the identity on the whole core; the continue loop (steps, snapshots, rewinds) "
          "never changes a parked flow; for ANY list of host operations in another flow, switching there, running "
          "them and switching back leaves a flow's record exactly as it was (other_flow_untouched, 1800 lines over a "
          "Hoare logic for the step monad); the interleaving corollary holds under the explicit proviso that the other "
          "flow's steps leave the shared part (globals, counts, seed) alone (partial only in that proviso) — which "
          "the oracle checks: every interleaving of two flows (3+3 operations, with save/load after every "
          "operation, switch-away-and-back, switch-to-default variants) vs the solo runs, and the tie incl. the "
          "normalised multi-flow save."),
    design_ref="DESIGN.md section 5 C10",
    note="As C09. Flow scripts are disjoint in variables and knots (generator guarantee).",
    technique="Lean 4 theorems over the flow map (partial) + differential correspondence + exhaustive interleaving oracle"),
 "C08": dict(
    category="proof",
    text=("Proved: every state-changing entry point is refused while a time-limited continue is unfinished; a blocking "
          "continue always completes a paused one; the recursion count is balanced over pauses; and sliced = blocking: "
          "for ANY story and ANY sequence of step budgets, finishing a line with time-limited continues (plus, if "
          "needed, a final blocking one) ends in the same result and the SAME story (all fields: state with output, "
          "choices, variables, visit counts, call stack; snapshot; events incl. observer notifications and external "
          "calls) as the single blocking continue (sliced_eq_blocking, 2000 lines incl. the proof that the "
          "look-ahead-unsafe flag is consumed by the step that raises it). Hypotheses: the model's own fuel is not "
          "exhausted, and at each pause either no error handler is installed or no warning is pending (a handler "
          "receives pending warnings at a pause, which changes WHEN they are delivered — characterised by "
          "pause_delivers_warnings). Oracle: every single pause position, pause-after-every-step and random "
          "schedules on the virtual step clock vs the unsliced run, and the tie."),
    design_ref="DESIGN.md section 5 C08",
    note="As C09. Time is the virtual step clock (hook); the real clock truncates to whole milliseconds.",
    technique="Lean 4 theorems (sliced = blocking for all stories and schedules) + differential correspondence + exhaustive pause-position oracle"),
 "C02": dict(
    category="proof",
    text=("Proved for all values: the save codec of stack objects (control commands, native calls, strings, ints, "
          "bools, glue, void, tags), of integer dictionaries (visit and turn counts) and of push/pop codes decodes "
          "what it encodes; and for WHOLE states (Proofs/C02State.lean): for every saveable story (explicit decidable "
          "invariant Saveable, proved sound: saveableB_sound) the save loads into every story over the same tree and "
          "yields restoredState (loadState_saveState); in normal form every saved component — flows, call stacks, "
          "threads, choices, globals, evaluation stack, visit / turn counts, seed — is restored EQUAL "
          "(loadState_saveState_exact), loading a story's own save gives the story back (loadState_saveState_self). "
          "The token / code tables the codec rests on are proved equal to tables regenerated from the Rust source on "
          "every run (Proofs/Tables.lean, translators/tables.py). Which components of Saveable are invariants of the public operations is settled in "
          "Proofs/C02Reach.lean / C02Counters.lean over an inductive closure Reach: the tree and list definitions "
          "never change (reachable_root), TreeOK is kept (reachable_treeOK), every flow / thread / choice keeps its "
          "call-stack shape (reachable_callstack), visit counts, turn indices, turn index and previousRandom stay i32 "
          "values also through a failed load (reachable_counters); and three components are NOT invariants, each "
          "proved by a concrete reachable counterexample that reproduces on the real runtime and needs a document no "
          "compiler emits or an edited save (two sibling containers of one name: treeOK_not_invariant_of_loader; a "
          "save whose currentFlowName names no flow: flowNames_not_invariant; a list literal without origin: "
          "globals_not_invariant). NOT proved (partial): Saveable for every state reachable by playing a COMPILED "
          "story (pointer validity, saveable output objects, seed range remain; checked by the executable saveableB "
          "on the states the tie visits), "
          "and 'same future behaviour' as a consequence of state equality (it follows from determinism of the model; "
          "the real code is covered by the tie — the model's save equals the real save, normalised, after every step "
          "of every history — and by the oracle: a fresh story that loaded the save is played in lockstep with the "
          "original over a random continuation, incl. second-generation saves)."),
    design_ref="DESIGN.md section 5 C02",
    note="As C09. Error/warning lists are not part of a save; the cosmetic choice index is ignored.",
    technique="Lean 4 round-trip theorems over the save codec (partial) + differential correspondence + lockstep oracle"),
 "C07": dict(
    category="proof",
    text=("Proved: 32-bit integer + - *, truncating division, modulo with the sign of the dividend, the division law, "
          "comparisons, MIN/MAX, the coercion ladder (bool->int->float->string) for every binary operator, string "
          "concatenation and containment, list union / difference / intersection / has as set operations on keys, "
          "LIST_COUNT, LIST_MIN/MAX as extrema of the total order, sorted printing; and for EVERY expression tree that "
          "its value, printed text and faults are independent of the order in which list items are stored "
          "(order_independent, ~2400 lines of permutation lemmas). Oracle: typed random trees and the exhaustive "
          "operator x leaf table are rendered to Ink, compiled and played by the real code and compared with the "
          "tree's value under Ink/Expr.lean; the same scripts run on the interpreter model."),
    design_ref="DESIGN.md section 5 C07",
    note="Float arithmetic is Lean's Float32 (IEEE single) and a re-implemented shortest-round-trip Display; POW only "
         "with small integer arguments. Contested operator precedences (&& vs ||, * vs /) are not judged.",
    technique="Lean 4 theorems over the operator model + differential test against an independent tree evaluator"),
 "C03": dict(
    category="proof",
    text=("Proved: the model is a pure function of program, seed and host calls except for the hash order of list "
          "items, which it takes as an explicit input; every operator, printed list, LIST_MIN/MAX, LIST_RANDOM pick, "
          "LIST_ALL/INVERT and list+n is invariant under permutation of that order. Tie: the inventory of hash-"
          "iteration sites of runtime/ and compiler/ is regenerated from the source on every run and compared with "
          "the reviewed list c03_sites.json; transcripts replayed on the model. Oracle: transcripts of one history "
          "are identical in 4 processes (fresh hash seeds), twice within a process and in the release build; the "
          "compiler's output is byte-identical across processes and profiles."),
    design_ref="DESIGN.md section 5 C03",
    note="Notification order of observers within one call is outside C03. Saves are compared as JSON values.",
    technique="Lean 4 permutation-invariance theorems + source-site inventory + repeated-run oracle"),
 "C04": dict(
    category="proof",
    text=("Proved: + - * and unary minus wrap to 32 bits (wrapI32 is the unique in-range representative), / and % are "
          "defined exactly when the divisor is non-zero and the quotient fits and fault with an error otherwise, all "
          "integer results stay in the i32 range, EVERY native call on values or void is panic-free (wrong types, "
          "arity, void, casts surface as errors), evaluation-stack pops never panic, an error raised by a step is "
          "recorded, stops the story and is reported (Err without handler, callback with one), and resetting after "
          "an error gives exactly the fresh story; and step_panic_sites: a step of the interpreter model can end in a "
          "panic only at one of 8 named sites (9 for a whole continue step), each an unwrap of the Rust that an "
          "invariant of loaded trees / call stacks makes unreachable (listed with its invariant in corpus/c15/SITES.md) "
          "— after 35 former panic sites were turned into story errors in /repo and in the model. Those invariants are "
          "now proved, too (Proofs/C04Inv.lean, Proofs/C04Ptr.lean, 5000 lines): every thread of every flow, snapshot "
          "and pending choice has a non-empty call stack (established by construction and by every accepted load, kept "
          "by every public operation), the loaded tree's root is a container and every divert has a target or a "
          "variable name (established by the story loader), four sites are excluded by the control flow of the step "
          "alone; together loaded_reachable_never_panics: for every document the loader accepts and every story "
          "reachable from it through the public operations, continue_single_step does not end in a panic at any "
          "site. Partial in this sense only: the theorems are about the model; that the Rust has no further panic "
          "site is decided by "
          "the oracle: hand-written documents that used to panic, fault-prone "
          "expression trees, fault-prone generated programs, reproducers of past panics and token-level mutants of "
          "the conformance corpus under random histories, on debug and release builds (no panic, faults reported, "
          "reset = fresh, profiles agree), and by the tie (a model panic site reached = a code panic)."),
    design_ref="DESIGN.md section 5 C04",
    note="As C09. Programs on which the compiler itself fails are outside C04 (C06).",
    technique="Lean 4 theorems over the operator / error-delivery model (partial) + differential correspondence + fault-injection oracle on two build profiles"),
 "C05": dict(
    category="proof",
    text=("Translator-style: on every run the corpus sources are compiled with /repo's compiler and "
          "lean/Generated/C05.lean is regenerated with one theorem per (source, reference) pair: the model's "
          "exhaustive exploration of both documents along EVERY choice path (depth 12; 6 for the 15 stories that "
          "loop for ever) yields the same log of lines, tags, choices, end status and final globals; for 105 pairs "
          "the exploration is complete, i.e. the theorem covers all choice paths. The theorems are closed by "
          "native_decide (declared in the trusted base). The Intercept (2 x 160 kB, depth 4) has no theorem and is "
          "decided by oracle + tie only (depth 6; 8 in the thorough tier; plus random playthroughs of both documents in lockstep to the end for every pair the exhaustive exploration cannot finish). The 9 pairs that differed when the check "
          "was first run (compiler deviations in choice text, glue after a divert, label scope, a lost line break) "
          "have been repaired in /repo; every pair now agrees. Tie: the same exploration on the real runtime "
          "(branching by save/load) equals the model's log for both documents. Oracle: real logs of the two "
          "documents are equal."),
    design_ref="DESIGN.md section 5 C05",
    note="native_decide: the exploration is evaluated by compiled code, not by the kernel. Shuffle stories are "
         "compared modulo the shuffle (line text blanked).",
    technique="Lean 4 per-pair theorems regenerated from the compiler's output (native_decide) + differential exploration on the real runtime"),
 "C06": dict(
    category="proof",
    text=("Proved: the executable reference checker of the model is sound and complete for one object (refOk <-> the "
          "path resolves exactly to existing content) and sound for whole stories (storyOk = true implies every divert, "
          "choice target, read-count reference and divert-target value reachable from the root resolves without "
          "approximation); the executable tree well-formedness check is sound for the declarative WFTree of C19. "
          "NOT proved (no model of the compiler; partial): that the compiler terminates without panic on every text "
          "and that its output always passes the checker — decided by the oracle: corpus sources, generated "
          "programs, byte/character/token mutations, splices and token soup are compiled in separate processes under "
          "a time limit; no panic / hang, error lines exist, same bytes twice, output loads in the runtime, every "
          "reference row of the runtime's audit hook resolves exactly; tie: the checker's verdict equals the audit "
          "hook's on every compiled document."),
    design_ref="DESIGN.md section 5 C06",
    note="Inputs are valid Unicode text. The compiler itself is exercised, not modelled.",
    technique="Lean 4 soundness theorems for the output checker (partial) + differential tie with the audit hook + mutation oracle on the compiler"),
 "C14": dict(
    category="proof",
    text=("Proved: the streaming tokenizer's string reader (modelled after its Rust: one read per character, helpers "
          "per escape) equals the reference JSON string parser (the model of the serde_json based loader) on EVERY "
          "input — same text, same rest, same rejections (unknown escapes, bad hex, lone / reversed surrogates, raw "
          "control characters, unterminated strings) — and both invert the compact serialisation and the all-ASCII "
          "(\\uXXXX, surrogate pairs) serialisation of every string, at the fuel the loader really passes. The WHOLE "
          "streaming loader (tokenizer + json_read_stream.rs) is modelled (Ink/StreamLoad.lean); proved about it "
          "(Proofs/C14Struct.lean): its white-space loop equals the reference parser's on every input, its number "
          "test accepts exactly the texts the reference number parser consumes entirely, integer texts within i32 "
          "are classified as that integer, the float conversions agree; the token / arity tables of the model are "
          "proved equal to tables regenerated from the Rust source on every run (Proofs/Tables.lean). NOT proved "
          "(partial): equality of the two loaders above the tokens (object structure): it is false for arbitrary "
          "text (the streaming loader accepts some non-JSON and refuses some JSON that the default loader accepts: "
          "DESIGN.md Ch.8) and on emitted documents it is decided by the tie and the oracle: the model of the "
          "streaming loader gives the rows of the stream build on every document, and for every document x layout (as emitted, all non-ASCII "
          "escaped, pretty-printed two ways, with hostile text injected) the audit hook's rows of the default build, "
          "of the stream-json-parser build and the model's audit rows are equal, and a random play gives the same "
          "transcript under both builds."),
    design_ref="DESIGN.md section 5 C14",
    note="Documents keep the key order inkVersion, root, listDefs, which the streaming loader requires.",
    technique="Lean 4 model of both loaders, equivalence theorems at the token level (partial) + content-audit tie on both feature builds"),
 "C20": dict(
    category="proof",
    text=("Model: Ink/Cli.lean, the tool's output as a function of the library's results (the interpreter model) and "
          "the input lines, both modes. Proved: the tool's string escaping is inverted by the JSON parser for EVERY "
          "string; every kind of line of the JSON mode (text, tags, choices with tag_count, issues, cmdOutput, "
          "needInput, end, close) parses, through the real parser, to the intended object for all arguments; every "
          "standard-output piece of a whole JSON-mode session, for every story state, input sequence and fuel, is "
          "such a line of a documented kind. Tie: stdout, stderr and exit status of the real tool equal the model's "
          "pieces for every generated session (hostile text, scripted inputs incl. hostile diverts, help, blanks, "
          "early end of input, both modes, keep-open or not). Oracle: JSON-mode stdout decodes as documented objects; "
          "lines / tags / choices equal the library's for the same choices; compiled output byte-identical to the "
          "library's; a compile error exits non-zero with the library's message."),
    design_ref="DESIGN.md section 5 C20",
    note="Input lines contain ASCII white space only; stats mode (-s) is not modelled.",
    technique="Lean 4 theorems over a model of the tool's output + exact differential tie of stdout / stderr / exit status"),
 "C18": dict(
    category="proof",
    text=("Model: reference counting as a graph of strong references (Ink/Heap.lean). Proved: if some rank strictly "
          "increases along every strong reference, every object is freed once the host drops its references "
          "(ranked_no_leak, within n rounds, tight); a set of objects that own each other is never freed "
          "(cycle_leaks); an object leaks iff it is reachable from a strong cycle (leak_iff_cycle). Tie to the code: "
          "the inventory of all Rc / Weak fields of the runtime's data structures is regenerated from the source on "
          "every run and compared with the reviewed ranking c18_edges.json (story < state objects < content tree by "
          "depth < values; a reference from the tree into the tree must be weak). Oracle: under a counting "
          "allocator, live bytes after each of 12 create-play-drop cycles, and after each reset+replay / save+load "
          "round on one instance, do not grow (recorded histories with saves, loads, resets, flows, path jumps, host "
          "evaluations)."),
    design_ref="DESIGN.md section 5 C18",
    note="The link between the graph theorem and the code is the reviewed field ranking (static) plus the allocator oracle (dynamic); the real heap graph is not extracted.",
    technique="Lean 4 no-leak theorem for reference counting + regenerated Rc-field inventory + counting-allocator oracle"),
 "C01": dict(
    category="proof",
    text=("The independent source-level reference interpreter is Ink/Source.lean (900 lines of Lean, imports nothing "
          "from the runtime model): an AST of core Ink and a total function play : Program -> choices -> Transcript "
          "(lines, per-line tags, offered choices, end status, error kinds, final globals, knot / stitch visit counts). "
          "Proved about it: 32-bit arithmetic (wrap, range, division faults, equal to the runtime model's), the output "
          "rules (cleaned lines have no edge or double blanks, no empty lines, idempotent), the structure of a play "
          "(later choices never change earlier turns: play_prefix; a choice on offer gives exactly one more turn). "
          "Proved about the runtime model's look-ahead ('effects after a line end happen exactly once'): a step reports a "
          "line end only by rewinding to the snapshot taken at the line break, so everything executed while looking "
          "ahead is undone and runs again, once, from that state (continueSingleStep_rewind, stepLoop_newline, "
          "lookahead_undone); and as a refinement (Proofs/C01Linear.lean): the state a blocking continue returns lies on the "
          "LINEAR (look-ahead-free) trajectory of raw steps from the state it was given, a whole session of continues "
          "and host calls is ONE linear run cut at the call ends, and the concatenated per-call effect logs (globals, "
          "visit counts, turn indices, choices, temporaries) equal the log of that single run "
          "(cont_is_linear_prefix, conts_are_one_linear_run, effect_log_eq; any fuel, by induction over the loop). "
          "Formulations the language defines as equal (CONST forms vs literals) must compile and play identically "
          "(corpus/c01/equal). NOT proved (no model of the compiler; partial): that compile+play equals the reference "
          "interpreter for every program — decided by the oracle: generated core programs x ALL choice sequences to "
          "depth 4 (5 in the thorough tier), real transcript vs reference transcript, disagreements minimised; the 18 "
          "reproducers of the 16 compiler deviations found this way (all repaired in /repo since) are replayed and must agree."),
    design_ref="DESIGN.md section 5 C01",
    note="Core Ink as covered by Ink/Source.lean; lists, floats, CONST, INCLUDE, EXTERNAL, variable diverts, ref parameters are outside it.",
    technique="Lean 4 reference semantics + theorems about it and about the look-ahead (partial) + exhaustive-path differential oracle"),
 "C15": dict(
    category="proof",
    text=("Proved on the loader model: for EVERY JSON value (and unparsable text) the story loader ends in ok or an "
          "error, never a panic (loadStory_no_panic; error kinds BadJson or the model's own Fuel / Unsupported); the "
          "same for the save loader (loadState_no_panic, bottom-up over all readers); a load touches nothing but the "
          "story state, and whatever a (failed or successful) load did, a reset afterwards gives exactly the fresh "
          "story; the JSON parser accepts a document only as one value followed by white space (parse_total). Tie: the "
          "model's verdict on every mutated document equals the default loader's. Oracle: structural / textual "
          "mutations, truncation at every byte, nesting bombs and token damage of story documents and of saves "
          "(multi-flow saves, targeted key mutations), under both loaders: no panic, abort, stack overflow or "
          "timeout; after a failed load_state, reset makes the story play like a fresh one. One known finding: a "
          "document whose global declarations never terminate makes Story::new run for ever (recognised by the "
          "verif-hooks step budget)."),
    design_ref="DESIGN.md section 5 C15",
    note="Inputs are valid Unicode text. The streaming loader is exercised by the oracle only (its token level is modelled in C14).",
    technique="Lean 4 no-panic theorems over the loader models + verdict tie + mutation oracle on both loaders"),
}

REASONS_PENDING = "check not built yet in this revision of /verif (see DESIGN.md section 9.1 for the order of work)"


def main():
    try:
        commits = subprocess.run(["git", "-C", "/repo", "log", "--format=%H %s"], capture_output=True, text=True).stdout.splitlines()
    except Exception:
        commits = []
    hook_commits = [c.split()[0] for c in commits if " verif-hooks:" in c]
    checks = []
    for pid in ALL:
        if pid not in CLAIMS:
            continue
        c = CLAIMS[pid]
        checks.append({
            "property_id": pid,
            "quick_cmd": f"python3 check.py {pid} --tier quick",
            "thorough_cmd": f"python3 check.py {pid} --tier thorough",
            "evidence_file": f"/verif/evidence/{pid}.json",
            "replay_cmd_template": f"python3 check.py {pid} --replay {{path}}",
            "engine": "lean-proof+correspondence",
            "level_claimed": {"category": c["category"], "text": c["text"], "design_ref": c["design_ref"]},
            "level_note": c["note"],
            "technique": c["technique"],
        })
    man = {
        "version": 1,
        "setup_cmd": "python3 setup.py",
        "hooks": {
            "guard": "cargo feature verif-hooks on the bladeink crate",
            "enable": "the harness crate depends on bladeink with features=[\"verif-hooks\"]",
            "baseline_off_cmd": "cd /repo && cargo test --workspace --no-fail-fast --offline",
            "source_commits": hook_commits,
            "add_only": True,
        },
        "engines": [{
            "name": "lean-proof+correspondence", "path": "/verif/check.py",
            "serves_properties": sorted(CLAIMS.keys()),
            "kind_free_text": "Lean 4 theorems over executable models (lean/Ink, lean/Proofs); models tied to /repo on every run "
                              "by a differential correspondence check (harness/rt vs lean driver inkmodel); direct oracles on the real code give replays",
        }],
        "checks": checks,
        "notes": "All checks rebuild the harness against /repo's working tree and rebuild the Lean project; VERIF_SEED seeds every generator.",
        "not_applicable": [{"property_id": p, "reason": REASONS_PENDING} for p in ALL if p not in CLAIMS],
    }
    json.dump(man, open(os.path.join(ROOT, "MANIFEST.json"), "w"), indent=1)


if __name__ == "__main__":
    main()
