//! rtonly <list-file>: for every document path in the list file, load it and play it along the
//! first choice for a few turns; one block of plain lines per document (compared textually
//! between the two loader builds).
use bladeink::story::Story;
use std::panic::{AssertUnwindSafe, catch_unwind};

fn play(path: &str) -> Vec<String> {
    let mut out = Vec::new();
    let text = match std::fs::read_to_string(path) {
        Ok(t) => t,
        Err(e) => return vec![format!("READ-ERR {e}")],
    };
    let text = text.trim_start_matches('\u{feff}');
    let mut story = match Story::new(text) {
        Ok(s) => s,
        Err(e) => return vec![format!("LOAD-ERR {e}")],
    };
    // the constructor draws a random story seed: fix it, and bound the number of steps of a continue
    story.verif_set_seed(7, 0);
    story.verif_set_fuel(Some(200_000));
    for _turn in 0..5 {
        let mut lines = 0;
        while story.can_continue() && lines < 200 {
            lines += 1;
            match story.cont() {
                Ok(t) => out.push(format!("LINE {t:?} TAGS {:?}", story.get_current_tags().unwrap_or_default())),
                Err(e) => {
                    out.push(format!("ERR {e}"));
                    return out;
                }
            }
        }
        let choices = story.get_current_choices();
        out.push(format!(
            "CHOICES {:?}",
            choices.iter().map(|c| (c.text.clone(), c.tags.clone())).collect::<Vec<_>>()
        ));
        if choices.is_empty() {
            break;
        }
        if let Err(e) = story.choose_choice_index(0) {
            out.push(format!("CHOOSE-ERR {e}"));
            break;
        }
    }
    out
}

fn main() {
    let list = std::env::args().nth(1).expect("list file");
    std::panic::set_hook(Box::new(|_| {}));
    for path in std::fs::read_to_string(list).expect("list").lines() {
        let path = path.trim();
        if path.is_empty() {
            continue;
        }
        println!("DOC {path}");
        match catch_unwind(AssertUnwindSafe(|| play(path))) {
            Ok(lines) => {
                for l in lines {
                    println!("{l}");
                }
            }
            Err(_) => println!("PANIC"),
        }
    }
}
