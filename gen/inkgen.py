#!/usr/bin/env python3
"""inkgen: seeded random generator of valid Ink programs.

    generate(seed, profile="core", size=3) -> ink source text
    meta(seed, profile="core", size=3)     -> facts about the same program
    shrink_candidates(src)                 -> variants with one knot / one line removed

A program is first built as a small AST (Program / Knot / statement nodes) and
then rendered to text.  All randomness comes from one random.Random seeded from
(seed, crc32(profile), size); no global state, no time, no hash().

The text forms are restricted to what the Rust compiler in /repo accepts (it
is line and indentation based): choice bodies are always indented deeper than
their choice, text lines start with a plain word, braces never contain ':' or
'|' except as syntax, and so on.

CLI:  inkgen.py <seed> <profile> [size]   print one program
      inkgen.py selftest                  construct histogram, 50 programs per profile
"""
import random
import re
import sys
import zlib

PROFILES = ["core", "random", "lists", "lists_random", "lists_ties", "externals", "observers",
            "errors", "flows", "functions", "hostile_text"]

KEYWORDS = {"not", "and", "or", "true", "false", "return", "else", "function", "temp", "var", "const",
            "list", "external", "include", "done", "end", "mod", "has", "hasnt",
            "stopping", "once", "cycle", "shuffle", "todo"}

MAX_LOOPS = 3          # total number of back-edges a play-through may take
VAR_BOUND = 100000     # magnitude bound kept for every int variable / parameter / return value
INT_LIMIT = 2000000000


# --------------------------------------------------------------------------
# AST
# --------------------------------------------------------------------------
class Stmt:
    def render(self, ind, level):
        raise NotImplementedError


class Text(Stmt):
    """One line of story text.  parts are already-rendered inline pieces."""

    def __init__(self, parts, tags=(), glue_start=False, glue_end=False, divert=None, lead="", trail=""):
        self.parts = list(parts)
        self.tags = list(tags)
        self.glue_start = glue_start
        self.glue_end = glue_end
        self.divert = divert
        self.lead = lead
        self.trail = trail

    def inline(self):
        s = " ".join(self.parts)
        if self.glue_start:
            s = "<> " + s
        if self.glue_end:
            s += " <>"
        for t in self.tags:
            s += " # " + t
        if self.divert:
            s += " -> " + self.divert
        return s

    def render(self, ind, level):
        return [" " * ind + self.lead + self.inline() + self.trail]


class Tilde(Stmt):
    def __init__(self, code):
        self.code = code

    def render(self, ind, level):
        return [" " * ind + "~ " + self.code]


class Divert(Stmt):
    def __init__(self, target):
        self.target = target

    def render(self, ind, level):
        return [" " * ind + "-> " + self.target]


class TunnelCall(Stmt):
    def __init__(self, target):
        self.target = target

    def render(self, ind, level):
        return [" " * ind + "-> " + self.target + " ->"]


class TunnelReturn(Stmt):
    def render(self, ind, level):
        return [" " * ind + "->->"]


class ThreadCall(Stmt):
    def __init__(self, target):
        self.target = target

    def render(self, ind, level):
        return [" " * ind + "<- " + self.target]


class TagLine(Stmt):
    def __init__(self, tag):
        self.tag = tag

    def render(self, ind, level):
        return [" " * ind + "# " + self.tag]


class Raw(Stmt):
    def __init__(self, lines):
        self.lines = list(lines)

    def render(self, ind, level):
        return [" " * ind + l for l in self.lines]


class CondBlock(Stmt):
    """style 'single': { cond: ... - else: ... }   style 'multi': { - c1: ... - c2: ... - else: ... }"""

    def __init__(self, branches, else_body=None, style="single"):
        self.branches = branches
        self.else_body = else_body
        self.style = style if len(branches) == 1 else "multi"

    def render(self, ind, level):
        p = " " * ind
        out = []
        if self.style == "single":
            cond, body = self.branches[0]
            out.append(p + "{ " + cond + ":")
            out += render_body(body, ind + 4, level)
        else:
            out.append(p + "{")
            for cond, body in self.branches:
                out.append(p + "- " + cond + ":")
                out += render_body(body, ind + 4, level)
        if self.else_body is not None:
            out.append(p + "- else:")
            out += render_body(self.else_body, ind + 4, level)
        out.append(p + "}")
        return out


class SeqBlock(Stmt):
    def __init__(self, mode, branches):
        self.mode = mode
        self.branches = branches   # each: [Text, more stmts...]

    def render(self, ind, level):
        p = " " * ind
        out = [p + "{" + self.mode + ":"]
        for b in self.branches:
            out.append(p + "- " + b[0].inline())
            out += render_body(b[1:], ind + 4, level)
        out.append(p + "}")
        return out


class Choice:
    def __init__(self, sticky=False, label=None, conds=(), start="", bracket=None, end="", tags=(),
                 divert=None, body=(), fallback=False):
        self.sticky = sticky
        self.label = label
        self.conds = list(conds)
        self.start = start
        self.bracket = bracket
        self.end = end
        self.tags = list(tags)
        self.divert = divert
        self.body = list(body)
        self.fallback = fallback

    def head(self):
        s = ""
        if self.label:
            s += "(" + self.label + ") "
        for c in self.conds:
            s += "{" + c + "} "
        if self.fallback:
            s += "->"
            if self.divert:
                s += " " + self.divert
            return s
        s += self.start
        if self.bracket is not None:
            s += ("" if (not self.start or self.start.endswith(" ")) else " ") + "[" + self.bracket + "]"
            if self.end:
                s += " " + self.end
        for t in self.tags:
            s += " # " + t
        if self.divert:
            s += " -> " + self.divert
        return s


class ChoiceGroup(Stmt):
    def __init__(self, choices, gather_label=None, gather_text=None):
        self.choices = choices
        self.gather_label = gather_label
        self.gather_text = gather_text   # Text or None

    def render(self, ind, level):
        p = " " * ind
        out = []
        for c in self.choices:
            marker = " ".join(("+" if c.sticky else "*") * level)
            out.append((p + marker + " " + c.head()).rstrip(" "))
            out += render_body(c.body, ind + 4, level + 1)
        g = p + " ".join("-" * level)
        if self.gather_label:
            g += " (" + self.gather_label + ")"
        if self.gather_text is not None:
            g += " " + self.gather_text.inline()
        out.append(g)
        return out


def par(e):
    """parenthesise unless e is a bare name / literal / call: the compiler reads "(name)" as a list literal"""
    if re.match(r'^[\w.]+$', e) or re.match(r'^\w+\([^()]*\)$', e) or re.match(r'^"[^"]*"$', e):
        return e
    return "(" + e + ")"


def render_body(stmts, ind, level):
    out = []
    for s in stmts:
        out += s.render(ind, level)
    return out


class Stitch:
    def __init__(self, name, body):
        self.name = name
        self.body = body


class Knot:
    def __init__(self, name, body=None, params=(), is_function=False, kind="knot"):
        self.name = name
        self.body = body if body is not None else []
        self.params = list(params)
        self.is_function = is_function
        self.kind = kind            # knot | tunnel | thread | function
        self.stitches = []

    def render(self):
        sig = self.name + ("(" + ", ".join(self.params) + ")" if (self.params or self.is_function) else "")
        out = ["=== " + ("function " if self.is_function else "") + sig + " ==="]
        out += render_body(self.body, 0, 1)
        for st in self.stitches:
            out.append("= " + st.name)
            out += render_body(st.body, 0, 1)
        return out


class Program:
    def __init__(self):
        self.decls = []       # declaration lines (VAR / LIST / EXTERNAL)
        self.root = []        # statements before the first knot
        self.knots = []

    def render(self):
        out = list(self.decls)
        out += render_body(self.root, 0, 1)
        for k in self.knots:
            out.append("")
            out += k.render()
        return "\n".join(out) + "\n"


# --------------------------------------------------------------------------
# Vocabulary
# --------------------------------------------------------------------------
KNOT_WORDS = ["cave", "harbor", "market", "tower", "garden", "bridge", "cellar", "forest", "library",
              "station", "kitchen", "meadow", "attic", "chapel", "quarry", "mill", "dock", "square"]
STITCH_WORDS = ["door", "window", "stairs", "corner", "table", "shelf", "gate", "well", "bench", "path"]
INT_WORDS = ["gold", "health", "keys", "score", "mood", "steps", "coins", "trust", "fear", "luck", "rank", "heat"]
BOOL_WORDS = ["has_map", "is_tired", "door_open", "met_guard", "lamp_lit", "is_wet", "knows_code"]
STR_WORDS = ["hero_name", "last_place", "title", "motto", "nick", "note"]
LIST_WORDS = ["colors", "sizes", "tools", "moods", "rooms", "seasons"]
ITEM_WORDS = ["red", "green", "blue", "pink", "small", "medium", "large", "huge", "axe", "rope", "lamp", "saw",
              "glad", "calm", "grim", "hall", "den", "loft", "yard", "spring", "summer", "autumn", "winter",
              "amber", "ivory", "coal", "mint", "plum"]
FN_WORDS = ["double_it", "clamp", "describe", "tally", "greet", "mix", "pick", "bump", "weigh", "label_of"]
EXT_WORDS = ["play_sound", "get_time", "roll_dice", "log_event", "get_score", "host_flag"]
TUNNEL_WORDS = ["rest", "inspect", "trade", "pray", "nap"]
THREAD_WORDS = ["whispers", "crowd", "weather", "radio"]
LABEL_WORDS = ["opt", "seen", "mark", "spot", "pt"]
PARAM_WORDS = ["p", "q", "k", "n", "m", "v", "w"]
WORDS = ["the", "lantern", "flickers", "you", "walk", "slowly", "rain", "falls", "a", "hinge", "creaks", "wind",
         "rises", "someone", "laughs", "far", "away", "light", "fades", "stone", "is", "cold", "water", "drips",
         "old", "map", "shows", "nothing", "here", "again", "quiet", "now", "birds", "sing", "dust", "settles",
         "it", "feels", "strange", "voices", "echo", "night", "comes"]
STR_LITS = ["abc", "north", "south", "x", "fine", "", "two words", "Z9"]
TAG_WORDS = ["vibe", "sfx", "bg", "cam", "tone", "beat", "audio", "scene"]

# hostile pieces: allowed anywhere in plain text lines
HOSTILE_TEXT = ['"quoted"', 'say "hi" now', "\\\\", "back\\\\slash", "tab\there", "\t", "é", "café",
                "日本", "日本語テキスト", "\U0001F600", "\U0001F389x",
                "\\#", "a\\#b", "it's", "semi;colon", "co,mma", "why?", "x=y", "100%", "(paren)", "a/b",
                "R&D", "$5", "@home", "`tick`", "colon: here", "  wide  gap  ", "a\u00a0b", "zero\u200bwidth",
                "e\u0301"]
# subset safe inside braces / choice text / tags (no ':' '|' '#' backslash, parens)
HOSTILE_SAFE = ['"quoted"', 'say "hi"', "tab\there", "é", "café", "日本",
                "\U0001F600", "it's", "semi;colon", "why?", "100%", "R&D", "$5", "e\u0301"]
HOSTILE_STR_LITS = ["é\U0001F600", "日本", "tab\there", "it's", "café \U0001F389"]


class Names:
    def __init__(self, rng):
        self.rng = rng
        self.used = set(KEYWORDS)

    def new(self, pool, prefix=""):
        w = prefix + self.rng.choice(pool)
        if w not in self.used:
            self.used.add(w)
            return w
        n = 2
        while (w + str(n)) in self.used:
            n += 1
        w = w + str(n)
        self.used.add(w)
        return w


class Fn:
    """A function or external signature."""

    def __init__(self, name, ptypes, rtype, prints=False, pure=True, external=False, has_fallback=False,
                 recursive=False):
        self.name = name
        self.ptypes = ptypes      # list of 'int' | 'str' | 'bool'
        self.rtype = rtype        # 'int' | 'str' | 'bool' | None
        self.prints = prints
        self.pure = pure
        self.external = external
        self.has_fallback = has_fallback
        self.recursive = recursive


class Scope:
    """Everything one flow may touch: its globals, nodes, tunnels, threads, functions."""

    def __init__(self):
        self.ints = []
        self.bools = []
        self.strs = []
        self.listvars = []     # (name, origin or None)
        self.loops = None      # global back-edge counter
        self.zero = None       # int var that can be zero (errors profile)
        self.nodes = []        # paths "knot" / "knot.stitch" in program order
        self.visited_names = []  # paths usable as read counts
        self.labels = []       # cross-node label paths
        self.tunnels = []      # names, callable in DAG order
        self.fns = []          # Fn
        self.exts = []         # Fn (external)


class Ctx:
    """Where we are generating: which variables are readable, what may be emitted."""

    def __init__(self, scope, kind, index=0, revisit=True):
        self.scope = scope
        self.kind = kind               # node | tunnel | thread | function
        self.index = index             # node index for forward targets
        self.revisit = revisit
        self.ints = list(scope.ints)
        self.bools = list(scope.bools)
        self.strs = list(scope.strs)
        self.wints = list(scope.ints)  # assignable
        self.wbools = list(scope.bools)
        self.wstrs = list(scope.strs)
        self.labels = []               # labels readable by bare name
        self.pure = False              # pure function body: no globals, no state
        self.fn_limit = None           # functions callable: scope.fns[:fn_limit]
        self.tunnel_from = 0           # tunnels callable: scope.tunnels[tunnel_from:]
        self.targets = []              # forward divert targets
        self.depth = 1
        self.noturns = False           # TURNS_SINCE not allowed (position the compiler does not scan)

    def copy(self):
        c = Ctx.__new__(Ctx)
        c.__dict__.update(self.__dict__)
        c.ints, c.strs, c.bools = list(self.ints), list(self.strs), list(self.bools)
        return c


# --------------------------------------------------------------------------
# Generator
# --------------------------------------------------------------------------
def features(profile):
    f = dict(shuffle=False, rand=False, lists=False, list_random=False, list_ties=False, externals=False,
             observers=False, errors=False, flows=False, fn_heavy=False, hostile=False,
             turns=True, threads=True, tunnels=True, functions=True)
    if profile == "random":
        f.update(shuffle=True, rand=True)
    elif profile in ("lists", "lists_random", "lists_ties"):
        f.update(lists=True, list_random=(profile == "lists_random"), list_ties=(profile == "lists_ties"))
    elif profile == "externals":
        f.update(externals=True)
    elif profile == "observers":
        f.update(observers=True)
    elif profile == "errors":
        f.update(errors=True)
    elif profile == "flows":
        f.update(flows=True, turns=False)
    elif profile == "functions":
        f.update(fn_heavy=True)
    elif profile == "hostile_text":
        f.update(hostile=True)
    return f


class Gen:
    def __init__(self, seed, profile, size):
        if profile not in PROFILES:
            raise ValueError("unknown profile %r" % (profile,))
        size = max(1, min(5, int(size)))
        mixed = (int(seed) * 1000003 + zlib.crc32(profile.encode("utf-8")) * 31 + size) & ((1 << 62) - 1)
        self.rng = random.Random(mixed)
        self.profile = profile
        self.size = size
        self.f = features(profile)
        self.names = Names(self.rng)
        self.prog = Program()
        self.lists = {}          # list name -> {item: value}
        self.item_origin = {}    # item -> list name
        self.faults = []
        self.flow_entries = []
        self.all_fns = []
        self.all_exts = []
        self.globals = []
        self.scopes = []

    # ---- small helpers -------------------------------------------------
    def p(self, prob):
        return self.rng.random() < prob

    def pick(self, seq):
        return seq[self.rng.randrange(len(seq))]

    def wpick(self, pairs):
        """pairs: [(weight, value)]"""
        tot = sum(w for w, _ in pairs)
        r = self.rng.random() * tot
        for w, v in pairs:
            r -= w
            if r < 0:
                return v
        return pairs[-1][1]

    # ---- words and text --------------------------------------------------
    def word(self, safe=False):
        if self.f["hostile"] and self.p(0.3):
            return self.pick(HOSTILE_SAFE if safe else HOSTILE_TEXT)
        return self.pick(WORDS)

    def words(self, lo, hi, safe=False):
        n = self.rng.randrange(lo, hi + 1)
        ws = [self.word(safe) for _ in range(n)]
        # first piece is always a plain capitalised word so that the line can never be
        # mistaken for a choice / gather / header / logic line
        ws[0] = self.pick(WORDS).capitalize()
        return ws

    def tag(self):
        t = self.pick(TAG_WORDS)
        if self.p(0.4):
            t += " " + self.pick(WORDS)
        if self.f["hostile"] and self.p(0.6):
            t += " " + self.pick(HOSTILE_SAFE)
        return t

    def str_lit(self):
        # ASCII only: the compiler slices expressions by char index, so a non-ASCII literal followed by
        # more tokens is mis-tokenised (or panics).  Hostile literals are only emitted as the sole
        # right-hand side of VAR / assignment lines.
        return '"' + self.pick(STR_LITS) + '"'

    # ---- expressions -----------------------------------------------------
    def callable_fns(self, ctx):
        fns = ctx.scope.fns if ctx.fn_limit is None else ctx.scope.fns[:ctx.fn_limit]
        if ctx.pure:
            fns = [f for f in fns if f.pure and not f.prints]
        return fns

    def call(self, fn, ctx, depth=1):
        args = []
        for t in fn.ptypes:
            if fn.recursive:
                args.append(str(self.rng.randrange(0, 6)))
            elif t == "int":
                e, b = self.int_expr(ctx, depth)
                args.append(e if b <= VAR_BOUND else par(e) + " % 1000")
            elif t == "bool":
                args.append(self.bool_expr(ctx, depth))
            else:
                args.append(self.str_expr(ctx, depth, plain=True))
        return fn.name + "(" + ", ".join(args) + ")"

    def int_atom(self, ctx, depth):
        opts = [(3, "lit")]
        if ctx.ints:
            opts.append((5, "var"))
        fns = [f for f in self.callable_fns(ctx) if f.rtype == "int" and not f.prints]
        if fns and depth <= 1:
            opts.append((2.5 if self.f["fn_heavy"] else 1, "fn"))
        if not ctx.pure:
            if ctx.scope.visited_names:
                opts.append((1, "count"))
            if ctx.labels:
                opts.append((0.7, "label"))
            if self.f["turns"] and ctx.scope.visited_names and not ctx.noturns:
                opts.append((0.5, "turns"))
            if self.f["rand"]:
                opts.append((1.5, "random"))
            if self.f["lists"] and self.lists:
                opts.append((2, "listint"))
            exts = [f for f in ctx.scope.exts]
            if exts and depth <= 1:
                opts.append((3, "ext"))
        k = self.wpick(opts)
        if k == "lit":
            return str(self.rng.randrange(0, 10)), 9
        if k == "var":
            return self.pick(ctx.ints), VAR_BOUND
        if k == "fn":
            return self.call(self.pick(fns), ctx, depth + 1), VAR_BOUND
        if k == "count":
            return self.pick(ctx.scope.visited_names), 50
        if k == "label":
            return self.pick(ctx.labels), 50
        if k == "turns":
            return "TURNS_SINCE(-> " + self.pick(ctx.scope.visited_names) + ")", 1000
        if k == "random":
            a = self.rng.randrange(0, 5)
            return "RANDOM(%d, %d)" % (a, a + self.rng.randrange(0, 7)), 12
        if k == "listint":
            if self.p(0.5):
                return "LIST_COUNT(" + self.list_expr(ctx, 1)[0] + ")", 50
            return "LIST_VALUE(" + self.list_expr(ctx, 1)[0] + ")", 100
        if k == "ext":
            return self.call(self.pick(exts), ctx, depth + 1), VAR_BOUND
        raise AssertionError(k)

    def int_expr(self, ctx, depth=0):
        """returns (text, magnitude bound)"""
        if depth >= 2 or self.p(0.35):
            return self.int_atom(ctx, depth)
        a, ba = self.int_expr(ctx, depth + 1)
        op = self.wpick([(4, "+"), (3, "-"), (2, "*"), (1, "/"), (1, "%"), (0.5, "mod"), (0.5, "neg"), (1, "paren")])
        if op == "neg":
            return "-" + self.int_atom(ctx, 2)[0], VAR_BOUND
        if op == "paren":
            b, bb = self.int_expr(ctx, depth + 1)
            return "(" + a + " + " + b + ")", ba + bb
        if op in ("/", "%", "mod"):
            d = self.rng.randrange(1, 10)
            return par(a) + " " + op + " " + str(d), (ba if op == "/" else 9)
        if op == "*":
            m = self.rng.randrange(0, 10)
            if ba * 9 < INT_LIMIT:
                return par(a) + " * " + str(m), ba * 9
            op = "+"
        b, bb = self.int_expr(ctx, depth + 1)
        if op == "-":
            # right operand parenthesised so that "a - b + c" keeps its meaning obvious
            return a + " - " + par(b), ba + bb
        return a + " + " + b, ba + bb

    def int_value(self, ctx):
        """int expression that is safe to store (bounded)."""
        e, b = self.int_expr(ctx)
        if b > VAR_BOUND:
            return par(e) + " % 1000"
        return e

    def bool_expr(self, ctx, depth=0):
        opts = [(4, "cmp")]
        if ctx.bools:
            opts.append((2, "var"))
        if ctx.strs:
            opts.append((1, "streq"))
        if depth < 1:
            opts += [(1.5, "and"), (1, "or"), (1, "not")]
        opts.append((0.3, "lit"))
        if not ctx.pure:
            if ctx.scope.visited_names:
                opts.append((1.5, "visited"))
            if self.f["lists"] and self.lists:
                opts.append((4, "list"))
        fns = [f for f in self.callable_fns(ctx) if f.rtype == "bool" and not f.prints]
        if fns and depth < 1:
            opts.append((1, "fn"))
        k = self.wpick(opts)
        if k == "cmp":
            a, _ = self.int_expr(ctx, depth + 1)
            b, _ = self.int_expr(ctx, 2)
            return a + " " + self.pick(["==", "!=", "<", ">", "<=", ">="]) + " " + b
        if k == "var":
            return self.pick(ctx.bools)
        if k == "streq":
            return self.pick(ctx.strs) + " " + self.pick(["==", "!="]) + " " + self.str_lit()
        if k == "and":
            return self.bool_expr(ctx, 1) + " " + self.pick(["and", "&&"]) + " " + self.bool_expr(ctx, 1)
        if k == "or":
            return par(self.bool_expr(ctx, 1)) + " " + self.pick(["or", "||"]) + " " + par(self.bool_expr(ctx, 1))
        if k == "not":
            return "not " + par(self.bool_expr(ctx, 1))
        if k == "lit":
            return self.pick(["true", "false"])
        if k == "visited":
            v = self.pick(ctx.scope.visited_names + ctx.labels + ctx.scope.labels)   # knot, knot.stitch, label, knot.label
            return self.pick([v, v + " > 0", "not " + v, v + " == 0"])
        if k == "list":
            return self.list_bool(ctx)
        if k == "fn":
            return self.call(self.pick(fns), ctx, depth + 1)
        raise AssertionError(k)

    def cond(self, ctx):
        """bool expression used as a condition.  The compiler takes any condition text ending in "()"
        for a call of a parameterless function named by the *whole* text, so never end with "()"."""
        c = self.bool_expr(ctx)
        if c.endswith("()"):
            c = "(" + c + ")"
        return c

    def str_expr(self, ctx, depth=0, plain=False):
        opts = [(3, "lit")]
        if ctx.strs:
            opts.append((3, "var"))
        if depth < 1 and not plain:
            opts += [(2, "cat"), (1, "catint")]
        fns = [f for f in self.callable_fns(ctx) if f.rtype == "str" and not f.prints]
        if fns and depth < 1:
            opts.append((1.5, "fn"))
        k = self.wpick(opts)
        if k == "lit":
            return self.str_lit()
        if k == "var":
            return self.pick(ctx.strs)
        if k == "cat":
            # a non-ASCII literal must never be followed by more tokens (compiler slices by char index)
            return self.str_expr(ctx, 1, plain=True) + " + " + self.str_lit()
        if k == "catint":
            left = self.pick(ctx.strs) if ctx.strs else '"' + self.pick(STR_LITS) + '"'
            return left + " + " + self.int_atom(ctx, 2)[0]
        if k == "fn":
            return self.call(self.pick(fns), ctx, depth + 1)
        raise AssertionError(k)

    # ---- lists ----------------------------------------------------------
    def list_atom(self, ctx, origin):
        """returns (text, origin); origin None means items of several lists may be inside"""
        if origin is None:
            origin = self.pick(list(self.lists))
        items = list(self.lists[origin])
        vars_ = [n for n, o in ctx.scope.listvars if o == origin]
        k = self.wpick([(3 if vars_ else 0, "var"), (2, "listname"), (2, "item"), (1.5, "lit"), (0.3, "empty"),
                        (1, "fromint")])
        if k == "var":
            return self.pick(vars_), origin
        if k == "listname":
            return origin, origin
        if k == "item":
            return self.pick(items), origin
        if k == "lit":
            n = self.rng.randrange(1, min(3, len(items)) + 1)
            chosen = []
            for _ in range(n):
                it = self.pick(items)
                if it not in chosen:
                    chosen.append(it)
            if len(chosen) == 1:
                chosen.append(self.pick([i for i in items if i != chosen[0]]))
            return "(" + ", ".join(chosen) + ")", origin
        if k == "empty":
            return "()", origin
        return origin + "(" + str(self.rng.randrange(0, max(self.lists[origin].values()) + 2)) + ")", origin

    def list_expr(self, ctx, depth=0, origin=None):
        if depth >= 2 or self.p(0.3):
            return self.list_atom(ctx, origin)
        mixed_ok = origin is None
        k = self.wpick([(3, "+"), (2, "-"), (2, "^"), (1.5, "all"), (1.5, "invert"), (1.5, "range"),
                        (1.5, "min"), (1.5, "max"), (1 if self.f["list_random"] else 0, "random"), (0.7, "shift")])
        if k in ("+", "-", "^"):
            a, oa = self.list_expr(ctx, depth + 1, origin)
            ob_req = origin if not mixed_ok else (None if self.p(0.5) else oa)
            b, ob = self.list_expr(ctx, depth + 1, ob_req)
            res = oa if oa == ob else None
            return "(" + a + " " + k + " " + b + ")" if depth > 0 else a + " " + k + " " + b, res
        if k == "shift":
            a, oa = self.list_atom(ctx, origin)
            return "(" + a + " " + self.pick(["+", "-"]) + " 1)" if depth > 0 else a + " " + self.pick(["+", "-"]) + " 1", oa
        if k in ("min", "max"):
            # ties between lists are only allowed in lists_ties: otherwise stay inside one origin
            req = origin
            if req is None and not self.f["list_ties"]:
                req = self.pick(list(self.lists))
            a, oa = self.list_expr(ctx, depth + 1, req)
            return ("LIST_MIN(" if k == "min" else "LIST_MAX(") + a + ")", oa
        a, oa = self.list_expr(ctx, depth + 1, origin)
        if k == "all":
            return "LIST_ALL(" + a + ")", oa
        if k == "invert":
            return "LIST_INVERT(" + a + ")", oa
        if k == "random":
            return "LIST_RANDOM(" + a + ")", oa
        if k == "range":
            if oa is not None and self.p(0.5):
                its = list(self.lists[oa])
                i = self.rng.randrange(len(its))
                j = self.rng.randrange(i, len(its))
                return "LIST_RANGE(" + a + ", " + its[i] + ", " + its[j] + ")", oa
            lo = self.rng.randrange(0, 4)
            return "LIST_RANGE(" + a + ", %d, %d)" % (lo, lo + self.rng.randrange(0, 5)), oa
        raise AssertionError(k)

    def list_bool(self, ctx):
        a, oa = self.list_expr(ctx, 1)
        k = self.wpick([(3, "?"), (2, "!?"), (1, "has"), (1, "hasnt"), (1, "=="), (1, "!="), (2, "cmp"), (1, "count")])
        if k == "count":
            return "LIST_COUNT(" + a + ") " + self.pick([">", "==", "<"]) + " " + str(self.rng.randrange(0, 3))
        b, _ = self.list_expr(ctx, 1, oa if self.p(0.7) else None)
        if k == "cmp":
            k = self.pick(["<", ">", "<=", ">="])
        return a + " " + k + " " + b

    def list_stmt(self, ctx):
        name, origin = self.pick(ctx.scope.listvars)
        k = self.wpick([(3, "="), (3, "+="), (3, "-="), (1.5, "++"), (1, "--")])
        if k == "=":
            return Tilde(name + " = " + self.list_expr(ctx, 0, origin)[0])
        if k in ("+=", "-="):
            o = origin if origin is not None else self.pick(list(self.lists))
            its = list(self.lists[o])
            rhs = self.pick(its) if self.p(0.75) else "(" + its[0] + ", " + its[-1] + ")"
            return Tilde(name + " " + k + " " + rhs)
        return Tilde(name + k)

    # ---- inline pieces for text lines ------------------------------------
    def alt_text(self):
        return " ".join(self.word(safe=True) for _ in range(self.rng.randrange(1, 3)))

    def inline_piece(self, ctx):
        opts = [(3, "int"), (2, "cond"), (2, "seq")]
        if ctx.strs:
            opts.append((2, "str"))
        if ctx.bools:
            opts.append((1, "bool"))
        if ctx.pure:
            opts = [o for o in opts if o[1] != "seq"]
        else:
            if self.f["lists"] and self.lists:
                opts.append((8, "list"))
            if ctx.scope.exts:
                opts.append((6, "ext"))
        pf = [f for f in self.callable_fns(ctx) if f.prints or f.rtype is not None]
        if pf:
            opts.append((4 if self.f["fn_heavy"] else 1.5, "fn"))
        k = self.wpick(opts)
        if k == "int":
            return "{" + self.int_expr(ctx, 1)[0] + "}"
        if k == "str":
            return "{" + self.str_expr(ctx, 1) + "}"
        if k == "bool":
            return "{" + self.pick(ctx.bools) + "}"
        if k == "list":
            return "{" + self.list_expr(ctx)[0] + "}"
        if k == "ext":
            return "{" + self.call(self.pick(ctx.scope.exts), ctx, 2) + "}"
        if k == "fn":
            return "{" + self.call(self.pick(pf), ctx, 1) + "}"
        if k == "cond":
            c = self.cond(ctx)
            if self.p(0.5):
                return "{" + c + ": " + self.alt_text() + "}"
            return "{" + c + ": " + self.alt_text() + " | " + self.alt_text() + "}"
        if k == "seq":
            modes = [(3, ""), (2, "&"), (2, "!")]
            if self.f["shuffle"]:
                modes.append((4, "~"))
            m = self.wpick(modes)
            n = self.rng.randrange(2, 5)
            return "{" + m + "|".join(self.alt_text() for _ in range(n)) + "}"
        raise AssertionError(k)

    def text(self, ctx, plain=False):
        ws = self.words(2, 6)
        if not plain:
            n = self.wpick([(4, 0), (4, 1), (1.5, 2)])
            for _ in range(n):
                pos = self.rng.randrange(1, len(ws) + 1)
                ws.insert(pos, self.inline_piece(ctx))
        if not ws[-1].endswith("}") and self.p(0.7):
            ws[-1] += "."
        t = Text(ws)
        if self.p(0.2):
            t.tags = [self.tag() for _ in range(self.rng.randrange(1, 3))]
        if self.f["hostile"]:
            if self.p(0.25):
                t.lead = " " * self.rng.randrange(1, 4)
            if self.p(0.25):
                t.trail = self.pick([" ", "   ", "\t"])
        return t

    # ---- statements -----------------------------------------------------
    def assign(self, ctx):
        opts = []
        if ctx.wints:
            opts += [(4, "int"), (2, "inc")]
        if ctx.wbools:
            opts.append((2, "bool"))
        if ctx.wstrs:
            opts.append((2, "str"))
        if self.f["lists"] and ctx.scope.listvars and not ctx.pure:
            opts.append((10, "list"))
        if not opts:
            return None
        k = self.wpick(opts)
        if k == "int":
            v = self.pick(ctx.wints)
            return Tilde(v + " = " + self.int_value(ctx))
        if k == "inc":
            v = self.pick(ctx.wints)
            c = str(self.rng.randrange(1, 10))
            return Tilde(self.pick([v + " = " + v + " + " + c, v + " = " + v + " - " + c, v + " += " + c,
                                    v + " -= " + c, v + "++", v + "--"]))
        if k == "bool":
            return Tilde(self.pick(ctx.wbools) + " = " + self.bool_expr(ctx))
        if k == "str":
            v = self.pick(ctx.wstrs)
            if self.f["hostile"] and self.p(0.4):
                return Tilde(v + ' = "' + self.pick(HOSTILE_STR_LITS) + '"')
            if self.p(0.3):
                return Tilde(v + " = " + v + " + " + self.str_lit())
            return Tilde(v + " = " + self.str_expr(ctx))
        return self.list_stmt(ctx)

    def void_call(self, ctx):
        fns = [f for f in self.callable_fns(ctx)]
        if not ctx.pure:
            fns = fns + list(ctx.scope.exts)
        if not fns:
            return None
        for _ in range(8):
            c = self.call(self.pick(fns), ctx, 1)
            if "=" not in c:      # "~ f(a == b)" would be taken for an assignment by the compiler
                return Tilde(c)
        return None

    def small_body(self, ctx, allow_divert=False, ret=None):
        """1-2 simple statements for a conditional / sequence branch."""
        out = []
        for _ in range(self.wpick([(3, 1), (1, 2)])):
            s = self.assign(ctx) if self.p(0.45 if not self.f["observers"] else 0.6) else None
            out.append(s or self.text(ctx))
        if ret is not None:
            if self.p(0.6):
                out.append(Tilde("return " + ret()))
        elif allow_divert and ctx.targets and self.p(0.25):
            out.append(Divert(self.pick(ctx.targets)))
        return out

    def cond_block(self, ctx, allow_divert=False, ret=None):
        n = self.wpick([(6, 1), (1.5, 2), (0.5, 3)])
        branches = [(self.cond(ctx), self.small_body(ctx, allow_divert, ret)) for _ in range(n)]
        else_body = self.small_body(ctx, allow_divert, ret) if self.p(0.45) else None
        return CondBlock(branches, else_body, style=self.pick(["single", "multi"]))

    def seq_block(self, ctx):
        modes = [(3, "stopping"), (2, "cycle"), (2, "once")]
        if self.f["shuffle"]:
            modes.append((4, "shuffle"))
        branches = []
        ctx = ctx.copy()
        ctx.noturns = True        # sequence branches are not scanned for TURNS_SINCE targets either
        for _ in range(self.wpick([(3, 2), (1, 3)])):
            # only plain text and {value} here: the compiler miscompiles inline sequences and
            # inline conditionals nested inside a block sequence (wrong return paths, endless loop)
            b = [self.text(ctx, plain=True)]
            b[0].lead = b[0].trail = ""
            if ctx.ints and self.p(0.3):
                b[0].parts.insert(1, "{" + self.pick(ctx.ints) + "}")
            if self.p(0.25):
                a = self.assign(ctx)
                if a:
                    b.append(a)
            branches.append(b)
        return SeqBlock(self.wpick(modes), branches)

    def simple_stmt(self, ctx):
        """one statement (possibly a block) that neither diverts nor offers choices"""
        obs = self.f["observers"]
        opts = [(6, "text"), (6 if obs else 2.5, "assign"), (0.9, "cond"), (1, "inlinecond")]
        if not ctx.pure:
            opts.append((0.5, "seq"))
        if ctx.kind != "function":
            opts.append((0.7, "glue"))
            opts.append((0.4, "tagline"))
            if self.f["tunnels"] and ctx.scope.tunnels[ctx.tunnel_from:]:
                opts.append((1.6, "tunnel"))
        if self.callable_fns(ctx) or (ctx.scope.exts and not ctx.pure):
            opts.append((2.5 if (self.f["fn_heavy"] or self.f["externals"]) else 0.8, "call"))
        if self.f["rand"] and not ctx.pure:
            opts.append((0.4, "seed"))
        if self.f["externals"] and ctx.scope.exts and not ctx.pure:
            opts.append((5, "extform"))
        k = self.wpick(opts)
        if k == "text":
            return [self.text(ctx)]
        if k == "assign":
            a = self.assign(ctx)
            return [a] if a else [self.text(ctx)]
        if k == "cond":
            return [self.cond_block(ctx, allow_divert=(ctx.kind == "node"))]
        if k == "inlinecond":
            t = self.text(ctx, plain=True)
            t.parts = ["{" + self.cond(ctx) + ": " + " ".join(t.parts) + "}"]
            t.tags = []
            return [t]
        if k == "seq":
            return [self.seq_block(ctx)]
        if k == "glue":
            a, b = self.text(ctx), self.text(ctx, plain=self.p(0.5))
            a.tags = []
            a.trail = ""
            b.lead = ""
            if self.p(0.6):
                a.glue_end = True
            else:
                b.glue_start = True
            return [a, b]
        if k == "tagline":
            return [TagLine(self.tag()), self.text(ctx)]
        if k == "tunnel":
            return [TunnelCall(self.pick(ctx.scope.tunnels[ctx.tunnel_from:]))]
        if k == "call":
            c = self.void_call(ctx)
            return [c] if c else [self.text(ctx)]
        if k == "seed":
            return [Tilde("SEED_RANDOM(%d)" % self.rng.randrange(0, 1000))]
        if k == "extform":
            return self.ext_forms(ctx)
        raise AssertionError(k)

    def ext_forms(self, ctx):
        """external calls in the syntactic positions the look-ahead logic cares about"""
        e = lambda: self.call(self.pick(ctx.scope.exts), ctx, 2)
        k = self.pick(["stmt", "inline", "string", "cond", "before_end", "after_start", "glue", "glue2", "assign",
                       "tag_start", "tag_tail"])
        w = lambda: " ".join(self.words(1, 3))
        if k == "stmt":
            c = e()
            return [Tilde(c)] if "=" not in c else [Text([w(), "{" + c + "}"])]
        if k == "inline":
            return [Text([w(), "{" + e() + "}", self.word(True) + "."])]
        if k == "string":
            name = self.names.new(INT_WORDS, "t_")
            nt = ctx.copy()
            nt.noturns = True
            decl = Tilde('temp ' + name + ' = "{' + self.call(self.pick(ctx.scope.exts), nt, 2) + '}"')
            ctx.strs.append(name)
            return [decl, Text([w(), "{" + name + "}"])]
        if k == "cond":
            return [Text([w(), "{" + e() + " " + self.pick([">", "==", "<"]) + " " + str(self.rng.randrange(0, 3)) + ": yes | no}"])]
        if k == "before_end":
            return [Text([w(), "{" + e() + "}"]), Text([w() + "."])]
        if k == "after_start":
            return [Text([w() + "."]), Text(["{" + e() + "}", self.word(True), self.word(True) + "."])]
        if k == "tag_start" and ctx.kind != "function":
            # a tag on its own line that begins with the call, right after a finished line
            return [Text([w() + "."]), TagLine("{" + e() + "}" + self.word()), Text([w() + "."])]
        if k == "tag_tail" and ctx.kind != "function":
            return [Text([w()], tags=[self.word() + " {" + e() + "}"]), Text([w() + "."])]
        if k == "glue":
            return [Text([w(), "<>", "{" + e() + "}", "<>", self.word(True)])]
        if k == "glue2":
            return [Text([w()], glue_end=True), Text(["{" + e() + "}", self.word(True)])]
        v = self.pick(ctx.wints) if ctx.wints else None
        if v:
            return [Text([w() + "."]), Tilde(v + " = " + par(e()) + " % 1000"), Text([w(), "{" + v + "}"])]
        return [Text([w(), "{" + e() + "}"])]

    def stmts(self, ctx, lo, hi):
        out = []
        for _ in range(self.rng.randrange(lo, hi + 1)):
            out += self.simple_stmt(ctx)
        if self.f["observers"]:
            # make sure text is directly followed by assignments (look-ahead) and vice versa
            a = self.assign(ctx)
            if a:
                out += [self.text(ctx), a]
        return out

    # ---- choices -----------------------------------------------------------
    def choice_words(self, lo, hi):
        ws = self.words(lo, hi, safe=True)
        return " ".join(ws)

    def choice(self, ctx, level, can_divert):
        c = Choice(sticky=self.p(0.3))
        if self.p(0.22):
            c.label = self.names.new(LABEL_WORDS)
        if self.p(0.3):
            cc = self.cond(ctx) if not self.p(0.15) else "CHOICE_COUNT() < %d" % self.rng.randrange(1, 4)
            if "}" not in cc and "{" not in cc:
                c.conds.append(cc)
            if self.p(0.15):
                c.conds.append(self.cond(ctx))
        form = self.wpick([(4, "plain"), (3, "mid"), (1.5, "only"), (1, "start")])
        if form == "plain":
            c.start = self.choice_words(1, 4)
        elif form == "mid":
            c.start, c.bracket, c.end = self.choice_words(1, 3), self.alt_text(), self.alt_text()
        elif form == "only":
            c.start, c.bracket, c.end = "", self.choice_words(1, 3), ""
        else:
            c.start, c.bracket, c.end = self.choice_words(1, 3), self.alt_text(), ""
        if self.p(0.2) and form in ("plain", "mid"):
            # inline expression inside choice text
            piece = None
            nt = ctx.copy()
            nt.noturns = True     # TURNS_SINCE inside choice text leaves its target without turn counting
            if ctx.scope.exts:
                piece = "{" + self.call(self.pick(ctx.scope.exts), nt, 2) + "}"
            elif ctx.ints:
                piece = "{" + self.pick(ctx.ints) + "}"
            if piece:
                c.start += " " + piece
        if self.p(0.25):
            c.tags = [self.tag()]
        sub = ctx.copy()          # labels list stays shared on purpose: readable after the group
        sub.depth = level + 1
        body = []
        divert = self.pick(ctx.targets) if (can_divert and ctx.targets and self.p(0.4)) else None
        if divert and not c.tags and self.p(0.3):
            c.divert, divert = divert, None      # "* text -> target", no body
            n = 0
        else:
            n = self.wpick([(3, 0), (5, 1), (0.7, 2)])
        for _ in range(n):
            body += self.simple_stmt(sub)
        if level == 1 and not c.divert and self.p(0.15):
            body.append(self.choice_group(sub, 2, can_divert=False))
            body += [self.text(sub)]
        if divert:
            body.append(Divert(divert))
        if c.label:
            ctx.labels.append(c.label)
            if level == 1 and ctx.kind == "node":
                ctx.scope.labels.append(ctx.scope.nodes[ctx.index] + "." + c.label)
        c.body = body
        return c

    def choice_group(self, ctx, level, can_divert=True):
        n = self.wpick([(5, 2), (3, 3), (0.5, 4)]) if level == 1 else 2
        choices = [self.choice(ctx, level, can_divert) for _ in range(n)]
        # safety: the group must never run dry
        if ctx.revisit:
            safe = any(c.sticky and not c.conds for c in choices)
        else:
            safe = any(not c.conds for c in choices)
        want_fallback = (not safe) or self.p(0.2)
        if want_fallback and not safe and self.p(0.4):
            # repair by making one choice unconditional (and sticky if the place can be revisited)
            c = self.pick(choices)
            c.conds = []
            c.sticky = c.sticky or ctx.revisit
            want_fallback = self.p(0.15)
        if want_fallback:
            fb = Choice(sticky=ctx.revisit, fallback=True)
            if can_divert and ctx.targets and self.p(0.4):
                fb.divert = self.pick(ctx.targets)
            else:
                fb.body = [self.text(ctx)] if self.p(0.7) else []
            choices.append(fb)
        g = ChoiceGroup(choices)
        if self.p(0.3):
            g.gather_label = self.names.new(LABEL_WORDS)
            ctx.labels.append(g.gather_label)
            if level == 1 and ctx.kind == "node":
                ctx.scope.labels.append(ctx.scope.nodes[ctx.index] + "." + g.gather_label)
        # never a bare "-": inside a stitch, a bare gather after a "start [bracket]" choice makes the
        # compiled story underflow the evaluation stack
        if self.p(0.7) or not g.gather_label:
            g.gather_text = self.text(ctx, plain=self.p(0.5))
            g.gather_text.lead = g.gather_text.trail = ""
        return g

    # ---- declarations -----------------------------------------------------
    def declare_globals(self, scope, n_int, n_bool, n_str):
        for _ in range(n_int):
            v = self.names.new(INT_WORDS)
            scope.ints.append(v)
            self.prog.decls.append("VAR %s = %d" % (v, self.rng.randrange(0, 10)))
        for _ in range(n_bool):
            v = self.names.new(BOOL_WORDS)
            scope.bools.append(v)
            self.prog.decls.append("VAR %s = %s" % (v, self.pick(["true", "false"])))
        for _ in range(n_str):
            v = self.names.new(STR_WORDS)
            scope.strs.append(v)
            lit = self.pick(HOSTILE_STR_LITS) if (self.f["hostile"] and self.p(0.5)) else self.pick(STR_LITS)
            self.prog.decls.append('VAR %s = "%s"' % (v, lit))
        scope.loops = self.names.new(["loops", "rounds", "laps"])
        self.prog.decls.append("VAR %s = 0" % scope.loops)
        self.globals += scope.ints + scope.bools + scope.strs + [scope.loops]

    def declare_lists(self, scope):
        n = self.rng.randrange(2, 5)
        for _ in range(n):
            lname = self.names.new(LIST_WORDS)
            items = {}
            parts = []
            val = 0
            for i in range(self.rng.randrange(3, 6)):
                it = self.names.new(ITEM_WORDS)
                if i > 0 and self.p(0.2):
                    val += self.rng.randrange(2, 5)
                    txt = "%s = %d" % (it, val)
                else:
                    val += 1
                    txt = it
                items[it] = val
                self.item_origin[it] = lname
                if self.p(0.3):
                    txt = "(" + txt + ")"
                parts.append(txt)
            self.lists[lname] = items
            self.prog.decls.append("LIST %s = %s" % (lname, ", ".join(parts)))
            scope.listvars.append((lname, lname))
        self.globals += list(self.lists)
        for i in range(self.rng.randrange(2, 5)):
            v = self.names.new(["bag", "seen_set", "stock", "picked", "owned"])
            origin = self.pick(list(self.lists)) if (i > 0 or not self.p(0.5)) else None
            if self.p(0.5) and origin:
                init = self.pick(list(self.lists[origin]))   # "VAR v = (a, b)" is miscompiled, single item works
            else:
                init = "()"
            self.prog.decls.append("VAR %s = %s" % (v, init))
            scope.listvars.append((v, origin))
            self.globals.append(v)

    def declare_externals(self, scope):
        n = self.rng.randrange(2, 5)
        for i in range(n):
            name = self.names.new(EXT_WORDS)
            ptypes = [self.pick(["int", "int", "str"]) for _ in range(self.rng.randrange(0, 3))]
            fb = (i % 2 == 0) if self.p(0.8) else self.p(0.5)
            fn = Fn(name, ptypes, "int", external=True, has_fallback=fb)
            params = [self.names.new(PARAM_WORDS) for _ in ptypes]
            self.prog.decls.append("EXTERNAL %s(%s)" % (name, ", ".join(params)))
            fn.params = params
            scope.exts.append(fn)
            self.all_exts.append(fn)

    def external_fallbacks(self, scope):
        for fn in scope.exts:
            if not fn.has_fallback:
                continue
            ints = [p for p, t in zip(fn.params, fn.ptypes) if t == "int"]
            e = str(self.rng.randrange(0, 5))
            for p in ints:
                e += " + " + p
            body = [Tilde("return " + par(e) + " % 1000")]
            self.prog.knots.append(Knot(fn.name, body, fn.params, is_function=True, kind="function"))

    # ---- functions ----------------------------------------------------------
    def make_function(self, scope, kind):
        """kind: value | print | impure | recursive"""
        name = self.names.new(FN_WORDS)
        if kind == "recursive":
            p = self.names.new(PARAM_WORDS)
            body = [CondBlock([(p + " <= 0", [Tilde("return " + str(self.rng.randrange(0, 3)))])], None, "single"),
                    Tilde("return " + p + " + " + name + "(" + p + " - 1)")]
            fn = Fn(name, ["int"], "int", recursive=True)
            self.prog.knots.append(Knot(name, body, [p], True, "function"))
            scope.fns.append(fn)
            self.all_fns.append(fn)
            return
        ptypes = [self.pick(["int", "int", "str", "bool"]) for _ in range(self.rng.randrange(1, 4))]
        params = [self.names.new(PARAM_WORDS) for _ in ptypes]
        rtype = self.pick(["int", "int", "str", "bool"]) if kind != "print" or self.p(0.3) else None
        ctx = Ctx(scope, "function")
        ctx.fn_limit = len(scope.fns)
        ctx.pure = kind in ("value", "print")
        if ctx.pure:
            ctx.ints, ctx.bools, ctx.strs = [], [], []
            ctx.wints, ctx.wbools, ctx.wstrs = [], [], []
        for p, t in zip(params, ptypes):
            {"int": ctx.ints, "bool": ctx.bools, "str": ctx.strs}[t].append(p)
        body = []
        # temps
        for _ in range(self.rng.randrange(0, 3)):
            t = self.pick(["int", "int", "str", "bool"])
            tn = self.names.new(INT_WORDS, "t_")
            if t == "int":
                body.append(Tilde("temp " + tn + " = " + self.int_value(ctx)))
                ctx.ints.append(tn)
                ctx.wints.append(tn)
            elif t == "str":
                body.append(Tilde("temp " + tn + " = " + self.str_expr(ctx)))
                ctx.strs.append(tn)
                ctx.wstrs.append(tn)
            else:
                body.append(Tilde("temp " + tn + " = " + self.bool_expr(ctx)))
                ctx.bools.append(tn)
                ctx.wbools.append(tn)

        def ret():
            if rtype == "int":
                return self.int_value(ctx)
            if rtype == "str":
                return self.str_expr(ctx)
            return self.bool_expr(ctx)

        prints = kind == "print" or (kind == "impure" and self.p(0.3))
        if kind == "impure":
            a = None
            for _ in range(self.rng.randrange(1, 3)):
                a = self.assign(ctx)
                if a:
                    body.append(a)
        if prints:
            for _ in range(self.rng.randrange(1, 4)):
                body.append(self.text(ctx, plain=self.p(0.3)))
        if self.p(0.35):
            body.append(self.cond_block(ctx, ret=(ret if rtype else None)))
        # any text anywhere in the body makes it a printing function
        prints = prints or _has_text(body)
        if rtype:
            body.append(Tilde("return " + ret()))
        pure = ctx.pure and not _calls_impure(body, scope.fns)
        fn = Fn(name, ptypes, rtype, prints=prints, pure=pure)
        self.prog.knots.append(Knot(name, body, params, True, "function"))
        scope.fns.append(fn)
        self.all_fns.append(fn)

    # ---- tunnels and threads ------------------------------------------------
    def make_tunnels(self, scope, n):
        names = [self.names.new(TUNNEL_WORDS) for _ in range(n)]
        scope.tunnels = names
        knots = []
        for i, name in enumerate(names):
            ctx = Ctx(scope, "tunnel", revisit=True)
            ctx.tunnel_from = i + 1
            body = self.stmts(ctx, 1, 1)
            if self.p(0.35):
                body.append(self.choice_group(ctx, 1, can_divert=False))
                if self.p(0.3):
                    body += self.stmts(ctx, 1, 1)
            body.append(TunnelReturn())
            knots.append(Knot(name, body, kind="tunnel"))
        return knots

    def make_thread(self, scope, node_ctx):
        name = self.names.new(THREAD_WORDS)
        ctx = Ctx(scope, "thread", revisit=True)
        ctx.targets = list(node_ctx.targets) or ["END"]
        ctx.tunnel_from = len(scope.tunnels)   # no tunnels inside threads
        body = [self.text(ctx)]
        choices = []
        for _ in range(self.rng.randrange(1, 3)):
            c = self.choice(ctx, 2, can_divert=False)   # level 2: no nested groups
            c.divert = None
            c.body = [s for s in c.body if not isinstance(s, ChoiceGroup)]
            c.body.append(Divert(self.pick(ctx.targets)))
            choices.append(c)
        g = ChoiceGroup(choices)
        body.append(_ThreadChoices(g))
        body.append(Divert("DONE"))
        self.thread_knots.append(Knot(name, body, kind="thread"))
        return name

    # ---- main nodes -----------------------------------------------------------
    def plan_nodes(self, scope, n_knots):
        """allocate knot / stitch names first so that forward diverts can name them"""
        plan = []
        for _ in range(n_knots):
            k = self.names.new(KNOT_WORDS)
            st = [self.names.new(STITCH_WORDS) for _ in range(self.wpick([(7, 0), (2.5, 1), (0.4, 2)]))]
            plan.append((k, st))
            scope.nodes.append(k)
            for s in st:
                scope.nodes.append(k + "." + s)
        return plan

    def exit_stmts(self, ctx, backs):
        """statements that end a node: optional guarded back-edges, then a forward exit"""
        scope = ctx.scope
        out = []
        for dst in backs:
            out.append(Tilde(scope.loops + " = " + scope.loops + " + 1"))
            guard = "%s < %d" % (scope.loops, MAX_LOOPS + 1)
            if self.p(0.5):
                out.append(Text(["{" + guard + ": -> " + dst + "}"]))
            else:
                out.append(CondBlock([(guard, [self.text(ctx, plain=True), Divert(dst)])], None, "single"))
        nodes = scope.nodes
        if ctx.index + 1 < len(nodes):
            if self.p(0.75):
                tgt = nodes[ctx.index + 1]
            else:
                tgt = self.pick(ctx.targets)
            if self.p(0.06):
                tgt = "END"
        else:
            tgt = self.pick(["END", "END", "DONE"])
        if self.p(0.3):
            t = self.text(ctx, plain=True)
            t.tags, t.trail = [], ""
            t.divert = tgt
            out.append(t)
        else:
            out.append(Divert(tgt))
        return out

    def node_body(self, scope, index, backs, revisit):
        ctx = Ctx(scope, "node", index, revisit)
        ctx.targets = scope.nodes[index + 1:] or ["END"]
        if len(ctx.targets) > 1 and self.p(0.3):
            ctx.targets = ctx.targets + ["END"]
        body = []
        # temps first: their declaration dominates every later use in this node
        for _ in range(self.wpick([(4, 0), (3, 1), (1, 2)])):
            tn = self.names.new(INT_WORDS, "t_")
            t = self.pick(["int", "int", "str", "bool"])
            if t == "int":
                body.append(Tilde("temp " + tn + " = " + self.int_value(ctx)))
                ctx.ints.append(tn)
                ctx.wints.append(tn)
            elif t == "str":
                body.append(Tilde("temp " + tn + " = " + self.str_expr(ctx)))
                ctx.strs.append(tn)
                ctx.wstrs.append(tn)
            else:
                body.append(Tilde("temp " + tn + " = " + self.bool_expr(ctx)))
                ctx.bools.append(tn)
                ctx.wbools.append(tn)
        body.append(self.text(ctx))
        if self.f["observers"] and index == 0 and scope.tunnels:
            body.append(TunnelCall(scope.tunnels[0]))
            fns = [fn for fn in scope.fns if not fn.pure]
            if fns:
                c = self.call(fns[0], ctx, 1)
                body.append(Tilde(c) if "=" not in c else Text(["Then", "{" + c + "}"]))
        body += self.stmts(ctx, 0, 1 + self.size // 4)
        n_groups = self.wpick([(2.5, 0), (6, 1), (0.4 if self.size >= 3 else 0, 2)])
        for _ in range(n_groups):
            if self.f["threads"] and self.p(0.12):
                body.append(ThreadCall(self.make_thread(scope, ctx)))
            body.append(self.choice_group(ctx, 1, can_divert=True))
            if self.p(0.3):
                body += self.stmts(ctx, 1, 1)
        body += self.exit_stmts(ctx, backs)
        return body

    def build_scope(self, scope, n_knots):
        """generate the knots of one flow; returns list of Knot"""
        plan = self.plan_nodes(scope, n_knots)
        nn = len(scope.nodes)
        scope.visited_names = list(scope.nodes)
        # back-edges: src index -> [dst path]
        backs = {}
        min_dst = nn
        if nn > 1 and self.p(0.65):
            for _ in range(self.rng.randrange(1, 3)):
                src = self.rng.randrange(0, nn)
                dst = self.rng.randrange(0, src + 1)
                backs.setdefault(src, []).append(scope.nodes[dst])
                min_dst = min(min_dst, dst)
        self.thread_knots = []
        knots = []
        idx = 0
        for k, st in plan:
            knot = Knot(k, self.node_body(scope, idx, backs.get(idx, []), idx >= min_dst))
            idx += 1
            for s in st:
                knot.stitches.append(Stitch(s, self.node_body(scope, idx, backs.get(idx, []), idx >= min_dst)))
                idx += 1
            knots.append(knot)
        return knots + self.thread_knots

    # ---- faults (errors profile) ------------------------------------------------
    def insert_point(self, body):
        """index in a node body that is certainly reached: before the first choice / divert"""
        stop = len(body) - 1
        for i, s in enumerate(body):
            if isinstance(s, (ChoiceGroup, ThreadCall, Divert, CondBlock)) or (isinstance(s, Text) and s.divert):
                stop = i
                break
            if isinstance(s, Text) and any("->" in p for p in s.parts):
                stop = i
                break
        lo = 0
        while lo < len(body) and isinstance(body[lo], Tilde) and body[lo].code.startswith("temp "):
            lo += 1
        lo = min(lo + 1, stop)
        return self.rng.randrange(lo, stop + 1)

    def add_faults(self, scope, knots):
        bodies = []
        for k in knots:
            if k.kind == "knot":
                bodies.append(k.body)
                bodies += [s.body for s in k.stitches]
        kinds = ["div_zero", "mod_zero", "overflow", "bad_types", "no_content", "divert_var", "undeclared_temp"]
        for _ in range(self.rng.randrange(1, 4)):
            kind = self.pick(kinds)
            body = self.pick(bodies[:max(1, (len(bodies) + 1) // 2)]) if self.p(0.7) else self.pick(bodies)
            x = self.pick(scope.ints)
            w = self.pick(WORDS).capitalize()
            new = []
            if kind in ("div_zero", "mod_zero"):
                if scope.zero is None:
                    scope.zero = self.names.new(["divisor", "parts", "share"])
                    self.prog.decls.append("VAR %s = %d" % (scope.zero, self.pick([0, 0, 1])))
                    self.globals.append(scope.zero)
                z = scope.zero
                if self.p(0.4):
                    new.append(Tilde("%s = %s %% 2" % (z, x)))
                op = "/" if kind == "div_zero" else self.pick(["%", "mod"])
                if self.p(0.5):
                    new.append(Text([w, "{%d %s %s}" % (self.rng.randrange(1, 100), op, z), "left."]))
                else:
                    new.append(Tilde("%s = %s %s %s" % (x, x, op, z)))
            elif kind == "overflow":
                new.append(self.pick([
                    Tilde("%s = 2147483647 + %s" % (x, x)),
                    Text([w, "{2147483647 + %s}" % x, "total."]),
                    Tilde("%s = (%s + 1) * 2147483647" % (x, x)),
                    Text([w, "{-2147483647 - %s - 2}" % x]),
                ]))
            elif kind == "bad_types":
                new.append(self.pick([
                    Text([w, '{"a" * 2}', "times."]),
                    Text([w, '{"abc" - 1}']),
                    Text([w, '{"a" / %s}' % x]),
                    Tilde('%s = "a" * %s' % (x, x)),
                ]))
            elif kind == "no_content":
                last = body[-1]
                if isinstance(last, Divert):
                    body.pop()
                elif isinstance(last, Text):
                    last.divert = None
                self.faults.append(kind)
                continue
            elif kind == "divert_var":
                tv = self.names.new(["target_num", "where_to", "dest"])
                self.prog.decls.append("VAR %s = %d" % (tv, self.rng.randrange(0, 10)))
                self.globals.append(tv)
                new.append(CondBlock([("%s %s %d" % (x, self.pick([">", "<", "!="]), self.rng.randrange(0, 6)),
                                       [Text([w, "jump."]), Divert(tv)])], None, "single"))
            else:
                tt = self.names.new(INT_WORDS, "t_")
                new.append(CondBlock([("%s > %d" % (x, self.rng.randrange(3, 50)), [Tilde("temp %s = 1" % tt)])],
                                     None, "single"))
                new.append(Text([w, "{%s}" % tt, "seen."]))
            pos = self.insert_point(body)
            body[pos:pos] = new
            self.faults.append(kind)

    # ---- whole program --------------------------------------------------------
    def build_flow(self, scope, n_knots, n_fns, n_tunnels):
        f = self.f
        fn_knots_before = list(self.prog.knots)
        self.prog.knots = []
        if f["functions"]:
            kinds = []
            for i in range(n_fns):
                kinds.append(self.wpick([(4, "value"), (3, "print"), (2 if not f["fn_heavy"] else 3, "impure"),
                                         (0.7, "recursive")]))
            if f["observers"]:
                kinds = ["impure"] + kinds
            if f["fn_heavy"] and len(kinds) >= 4:
                kinds[:4] = ["value", "print", "impure", "recursive"]
            for k in kinds:
                self.make_function(scope, k)
        fn_knots = self.prog.knots
        self.prog.knots = []
        tunnel_knots = self.make_tunnels(scope, n_tunnels) if f["tunnels"] else []
        main = self.build_scope(scope, n_knots)
        self.external_fallbacks(scope)
        fb_knots = self.prog.knots
        # drop tunnels nobody calls (repeat: a tunnel may only be called by a dropped tunnel)
        while True:
            text = "\n".join(l for k in main + tunnel_knots + fn_knots for l in k.render())
            unused = [k for k in tunnel_knots if ("-> " + k.name + " ->") not in text]
            if not unused:
                break
            tunnel_knots = [k for k in tunnel_knots if k not in unused]
        self.prog.knots = fn_knots_before + main + tunnel_knots + fn_knots + fb_knots
        scope.members = [k.name for k in main + tunnel_knots + fn_knots + fb_knots]
        return main

    def build(self):
        f, size = self.f, self.size
        n_knots = {1: 1, 2: 1, 3: 2, 4: 3, 5: 5}[size] + (1 if self.p(0.5 if size == 2 else 0.3) else 0)
        if f["flows"]:
            nflows = 2 + (self.rng.randrange(0, 2) if size >= 3 else 0) + (1 if size >= 5 else 0)
            per_flow = {1: 1, 2: 1, 3: 1, 4: 1, 5: 2}[size]
            for _ in range(nflows):
                scope = Scope()
                self.scopes.append(scope)
                self.declare_globals(scope, self.rng.randrange(1, 3), self.rng.randrange(0, 2), self.rng.randrange(0, 2))
                self.build_flow(scope, per_flow + (1 if (size >= 4 and self.p(0.5)) else 0),
                                1 if self.p(0.3) else 0, 1 if self.p(0.3) else 0)
                self.flow_entries.append(scope.nodes[0])
            self.prog.root = [Text(["Root", "line."]), Divert("DONE")]
            return
        scope = Scope()
        self.scopes.append(scope)
        extra = 2 if f["observers"] else 0
        self.declare_globals(scope, 2 + size // 2 + extra, 1 + (size > 2) + extra // 2, 1 + (size > 3) + extra // 2)
        if f["lists"]:
            self.declare_lists(scope)
        if f["externals"]:
            self.declare_externals(scope)
        n_fns = self.rng.randrange(0, 2 + size // 2) + (2 + size // 2 if f["fn_heavy"] else 0)
        if f["externals"] or f["lists"]:
            n_fns = min(n_fns, 1)
        n_tunnels = self.rng.randrange(0, 2 + size // 3)
        if f["observers"]:
            n_tunnels = max(1, n_tunnels)
        if f["fn_heavy"] or f["lists"]:
            n_knots = max(2, n_knots - 1)
        main = self.build_flow(scope, n_knots, n_fns, n_tunnels)
        self.prog.root = [Divert(scope.nodes[0])]
        if f["lists"]:
            # list variables cannot be initialised with a multi-item literal: do it in the first knot
            init = []
            for name, origin in scope.listvars:
                if name not in self.lists and origin and self.p(0.6):
                    its = list(self.lists[origin])
                    init.append(Tilde("%s = (%s, %s)" % (name, its[0], its[-1])))
            main[0].body[0:0] = init
        if f["errors"]:
            self.add_faults(scope, main)

    def meta(self):
        prog = self.prog
        knots, stitches = [], []
        for k in prog.knots:
            if not k.is_function:
                knots.append(k.name)
                stitches += [k.name + "." + s.name for s in k.stitches]
        return {
            "seed_profile": self.profile,
            "globals": list(self.globals),
            "knots": knots,
            "stitches": stitches,
            "functions": [{"name": fn.name, "arity": len(fn.ptypes), "pure": fn.pure, "prints": fn.prints,
                           "ptypes": list(fn.ptypes)}
                          for fn in self.all_fns],
            "externals": [{"name": fn.name, "arity": len(fn.ptypes), "has_fallback": fn.has_fallback,
                           "ptypes": list(fn.ptypes)}
                          for fn in self.all_exts],
            "flows": list(self.flow_entries),
            # for each flow entry: every knot / function and every global that flow may touch
            "flow_members": {sc.nodes[0]: {"knots": list(sc.members),
                                           "globals": sc.ints + sc.bools + sc.strs + [sc.loops]}
                             for sc in self.scopes} if self.flow_entries else {},
            "lists": {k: dict(v) for k, v in self.lists.items()},
            "faults": list(self.faults),
        }


class _ThreadChoices(Stmt):
    """choices of a thread knot: no gather, every body diverts"""

    def __init__(self, group):
        self.group = group

    def render(self, ind, level):
        return self.group.render(ind, 1)[:-1]


def _walk(stmts):
    for s in stmts:
        yield s
        if isinstance(s, CondBlock):
            for _, b in s.branches:
                for x in _walk(b):
                    yield x
            if s.else_body:
                for x in _walk(s.else_body):
                    yield x
        elif isinstance(s, SeqBlock):
            for b in s.branches:
                for x in _walk(b):
                    yield x


def _has_text(body):
    return any(isinstance(s, Text) for s in _walk(body))


def _calls_impure(body, fns):
    text = "\n".join(render_body(body, 0, 1))
    for fn in fns:
        if not fn.pure and re.search(r"\b" + re.escape(fn.name) + r"\(", text):
            return True
    return False


# --------------------------------------------------------------------------
# Public API
# --------------------------------------------------------------------------
def _build(seed, profile, size):
    g = Gen(seed, profile, size)
    g.build()
    return g


def generate(seed, profile="core", size=3):
    """ink source text, deterministic in (seed, profile, size)"""
    return _build(seed, profile, size).prog.render()


def meta(seed, profile="core", size=3):
    """facts about the program generate() returns for the same arguments"""
    return _build(seed, profile, size).meta()


def shrink_candidates(src):
    """variants of a program text with one top-level knot, or one line, removed"""
    lines = src.split("\n")
    if lines and lines[-1] == "":
        lines.pop()
    starts = [i for i, l in enumerate(lines) if l.lstrip().startswith("==")]
    out = []
    for n, a in enumerate(starts):
        b = starts[n + 1] if n + 1 < len(starts) else len(lines)
        out.append("\n".join(lines[:a] + lines[b:]) + "\n")
    for i, l in enumerate(lines):
        if l.strip() == "" or l.lstrip().startswith("=="):
            continue
        out.append("\n".join(lines[:i] + lines[i + 1:]) + "\n")
    seen, uniq = set(), []
    for s in out:
        if s not in seen and s != src:
            seen.add(s)
            uniq.append(s)
    return uniq


# --------------------------------------------------------------------------
# Self test: construct histogram (does not need the rt binary)
# --------------------------------------------------------------------------
CONSTRUCTS = [
    ("knot", r"(?m)^=== (?!function)\w+ ===$"),
    ("stitch", r"(?m)^= \w+$"),
    ("divert_knot", r"(?m)-> [a-z]\w*$"),
    ("divert_stitch", r"(?m)-> [a-z]\w*\.\w+"),
    ("divert_DONE", r"-> DONE"),
    ("divert_END", r"-> END"),
    ("choice_once", r"(?m)^\s*\* (?!\*)"),
    ("choice_sticky", r"(?m)^\s*\+ (?!\+)"),
    ("choice_nested", r"(?m)^\s*[*+] [*+] "),
    ("choice_cond", r"(?m)^\s*[*+ ]+(\(\w+\) )?\{"),
    ("choice_label", r"(?m)^\s*[*+ ]+\(\w+\)"),
    ("choice_fallback", r"(?m)^\s*[*+ ]+->"),
    ("choice_bracket", r"(?m)^\s*[*+ ]+[^\n\[]*\[[^\]\n]*\]"),
    ("choice_tag", r"(?m)^\s*[*+][^\n]*#"),
    ("choice_inline_divert", r"(?m)^\s*[*+] [A-Z\[][^\n]* -> \w"),
    ("gather", r"(?m)^\s*-( -)?( |$)(?!else)"),
    ("gather_label", r"(?m)^\s*-( -)? \(\w+\)"),
    ("inline_cond", r"\{[^{}|\n]*[a-z0-9)\"] ?: [^{}\n]*\}"),
    ("inline_cond_else", r"\{[^{}|\n]*: [^{}\n]* \| [^{}\n]*\}"),
    ("block_cond_single", r"(?m)^\s*\{ [^\n]+:$"),
    ("block_cond_multi", r"(?m)^\s*\{\n\s*- [^\n]+:$"),
    ("block_else", r"(?m)^\s*- else:"),
    ("seq_stopping", r"\{[a-zA-Z\"][^{}:\n]*\|[^{}:\n]*\}"),
    ("seq_cycle", r"\{&[^{}\n]*\|"),
    ("seq_once", r"\{![^{}\n]*\|"),
    ("seq_shuffle", r"\{~[^{}\n]*\|"),
    ("seq_block", r"(?m)^\s*\{(stopping|cycle|once|shuffle):"),
    ("shuffle_block", r"(?m)^\s*\{shuffle:"),
    ("VAR", r"(?m)^VAR "),
    ("temp", r"~ temp "),
    ("assign", r"(?m)^\s*~ \w+ (=|\+=|-=) "),
    ("incr", r"(?m)^\s*~ \w+(\+\+|--)"),
    ("string_arith", r"\"[^\"\n]*\" \+ |\+ \"[^\"\n]*\""),
    ("string_cmp", r"(==|!=) \"[^\"\n]*\""),
    ("bool_ops", r"\b(and|or|not)\b|&&|\|\|"),
    ("read_count", r"\{\w+(\.\w+)?( > 0| == 0)?[}:]|not \w+\.\w+"),
    ("TURNS_SINCE", r"TURNS_SINCE\(-> "),
    ("CHOICE_COUNT", r"CHOICE_COUNT\(\)"),
    ("tunnel_call", r"(?m)^\s*-> \w+ ->$"),
    ("tunnel_return", r"(?m)^\s*->->$"),
    ("function_def", r"(?m)^=== function "),
    ("return", r"~ return "),
    ("fn_call_inline", r"\{\w+\([^{}\n]*\)\}"),
    ("fn_call_stmt", r"(?m)^\s*~ \w+\([^\n]*\)$"),
    ("thread", r"(?m)^\s*<- \w+"),
    ("glue", r"<>"),
    ("tag_line_end", r"(?m)^\s*[A-Za-z{\"][^\n#]* # "),
    ("tag_alone", r"(?m)^\s*# "),
    ("RANDOM", r"RANDOM\("),
    ("SEED_RANDOM", r"SEED_RANDOM\("),
    ("LIST_decl", r"(?m)^LIST "),
    ("LIST_explicit_value", r"(?m)^LIST [^\n]*\w = \d"),
    ("LIST_selected", r"(?m)^LIST [^\n]*\("),
    ("list_plus", r"\) \+ |\w \+ \(|\w \+ [a-z]\w*\b(?!\()"),
    ("list_intersect", r" \^ "),
    ("list_has", r" \? | has "),
    ("list_hasnt", r" !\? | hasnt "),
    ("list_literal", r"\(\w+, \w+\)"),
    ("list_empty", r"\(\)(?! <)"),
    ("list_add_assign", r"(?m)^\s*~ \w+ \+= [a-z(]"),
    ("list_sub_assign", r"(?m)^\s*~ \w+ -= [a-z(]"),
    ("LIST_COUNT", r"LIST_COUNT\("), ("LIST_MIN", r"LIST_MIN\("), ("LIST_MAX", r"LIST_MAX\("),
    ("LIST_ALL", r"LIST_ALL\("), ("LIST_INVERT", r"LIST_INVERT\("), ("LIST_RANGE", r"LIST_RANGE\("),
    ("LIST_VALUE", r"LIST_VALUE\("), ("LIST_RANDOM", r"LIST_RANDOM\("),
    ("list_from_int", r"\b[a-z]\w*\(\d+\)"),
    ("EXTERNAL", r"(?m)^EXTERNAL "),
    ("ext_in_string", r"= \"\{\w+\("),
    ("ext_glue", r"<> \{\w+\([^{}\n]*\)\} <>|<>\n\s*\{\w+\("),
    ("ext_line_start", r"(?m)^\s*\{\w+\([^{}\n]*\)\} "),
    ("ext_line_end", r"(?m)\{\w+\([^{}\n]*\)\}$"),
    ("ext_in_choice", r"(?m)^\s*[*+][^\n]*\{\w+\("),
    ("ext_in_cond", r"\{\w+\([^{}\n]*\) (>|==|<) \d+:"),
    ("fault_div", r" (/|%|mod) (divisor|parts|share)"),
    ("fault_overflow", r"2147483647"),
    ("fault_types", r"\"a(bc)?\" (\*|-|/) "),
    ("fault_divert_var", r"-> (target_num|where_to|dest)"),
    ("hostile_quote", r"(?m)^\s*[A-Z*+\-][^\n{}=~]*\"[^\n]*$"),
    ("hostile_backslash", r"\\\\"),
    ("hostile_hash_escape", r"\\#"),
    ("hostile_tab", r"\w\t\w"),
    ("hostile_non_ascii", r"[\u0080-￿]"),
    ("hostile_non_bmp", r"[\U00010000-\U0010ffff]"),
    ("hostile_lead_space", r"(?m)^(?: {1,3}| {5,7}| {9,11})[A-Z]\w+ [^\n]*$"),
    ("hostile_trail_space", r"(?m)[^\s][ \t]+$"),
]


def _applies(name, profile):
    """profile-specific constructs are only counted where they are meant to appear"""
    if name.startswith(("list_", "LIST_")):
        return profile.startswith("lists") and (name != "LIST_RANDOM" or profile == "lists_random")
    if name.startswith(("ext_", "EXTERNAL")):
        return profile == "externals"
    if name.startswith("hostile_"):
        return profile == "hostile_text"
    if name.startswith("fault_"):
        return profile == "errors"
    if name in ("RANDOM", "SEED_RANDOM", "seq_shuffle", "shuffle_block"):
        return profile == "random"
    return True


def selftest(n=50, size=3, out=sys.stdout):
    id_re = re.compile(r"^[a-z][a-z0-9_]*$")
    for profile in PROFILES:
        counts = {}
        lines = 0
        for seed in range(n):
            src = generate(seed, profile, size)
            assert src == generate(seed, profile, size), "non-deterministic"
            m = meta(seed, profile, size)
            names = m["globals"] + m["knots"] + [s.split(".")[1] for s in m["stitches"]]
            names += [f["name"] for f in m["functions"]] + [e["name"] for e in m["externals"] if not e["has_fallback"]]
            for li, items in m["lists"].items():
                names += list(items)
            assert len(names) == len(set(names)), ("duplicate names", profile, seed)
            for nm in names:
                assert id_re.match(nm) and nm not in KEYWORDS, ("bad name", nm)
            lines += src.count("\n")
            for name, rx in CONSTRUCTS:
                if not _applies(name, profile):
                    continue
                k = len(re.findall(rx, src))
                if k:
                    c = counts.setdefault(name, [0, 0])
                    c[0] += 1
                    c[1] += k
            for fk in m.get("faults", []):
                c = counts.setdefault("fault:" + fk, [0, 0])
                c[0] += 1
                c[1] += 1
        out.write("== %s: %d programs, avg %.0f lines; construct: programs/occurrences\n" % (profile, n, lines / n))
        row = []
        for name, _ in CONSTRUCTS + [("fault:" + k, "") for k in ("div_zero", "mod_zero", "overflow", "bad_types",
                                                                   "no_content", "divert_var", "undeclared_temp")]:
            if name in counts:
                row.append("%s=%d/%d" % (name, counts[name][0], counts[name][1]))
        for i in range(0, len(row), 6):
            out.write("   " + "  ".join(row[i:i + 6]) + "\n")


def main(argv):
    if len(argv) >= 2 and argv[1] == "selftest":
        selftest()
        return 0
    if len(argv) < 3:
        sys.stderr.write(__doc__)
        return 2
    size = int(argv[3]) if len(argv) > 3 else 3
    sys.stdout.write(generate(int(argv[1]), argv[2], size))
    return 0


if __name__ == "__main__":
    sys.exit(main(sys.argv))
