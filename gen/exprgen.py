"""Typed random / exhaustive Ink expression trees with a renderer to Ink source and to the AST
format of `inkmodel expr` (lean/Driver/Expr.lean).

Types: int, float (exactly representable), bool, str, list.  A tree is a nested list:
  ["i", n] ["f", bits] ["b", t] ["s", text] ["var", name] ["list", [[origin, item, value]..], [initial origins]]
  ["un", op, e] ["bin", op, l, r] ["fromint", listName, e] ["range", l, lo, hi]
(op = the runtime's native function name).
"""
import random
import struct

# ---- declarations -------------------------------------------------------------------------

LISTS = [
    # name, [(item, value, selected)]
    ("A", [("a1", 1, False), ("a2", 2, True), ("a3", 3, False)]),
    ("B", [("b1", 1, True), ("b2", 2, False), ("b5", 5, True)]),      # equal values with A
    ("C", [("c1", 1, False), ("c2", 2, False)]),                       # nothing selected: empty, origin known
    ("D", [("d3", 3, True), ("d4", 4, True), ("d7", 7, False), ("d8", 8, True)]),
]
ITEM = {it: (ln, v) for ln, items in LISTS for it, v, _ in items}


def f32bits(x):
    return struct.unpack("<I", struct.pack("<f", x))[0]


def lit_list(items, initial=()):
    return ["list", [[ITEM[i][0], i, ITEM[i][1]] for i in items], list(initial)]


VARS = [
    ("vi", "int", ["i", 7]), ("vj", "int", ["i", -3]), ("vz", "int", ["i", 0]), ("vk", "int", ["i", 2]),
    ("vbig", "int", ["i", 2147483647]),
    ("vf", "float", ["f", f32bits(2.5)]), ("vg", "float", ["f", f32bits(-0.5)]), ("vh", "float", ["f", f32bits(4.0)]),
    ("vb", "bool", ["b", True]), ("vc", "bool", ["b", False]),
    ("vs", "str", ["s", "abc"]), ("vt", "str", ["s", "b"]), ("ve", "str", ["s", ""]),
    ("la", "list", lit_list(["a1", "b5"])), ("lb", "list", lit_list(["a2", "b2", "d4"])),
    ("le", "list", ["list", [], []]),
]


def list_var_value(ln):
    items = [it for it, v, sel in dict(LISTS)[ln] if sel]
    return lit_list(items, initial=[ln] if not items else [])


def declarations_ink():
    out = []
    for ln, items in LISTS:
        parts = []
        for it, v, sel in items:
            txt = f"{it} = {v}"
            parts.append(f"({txt})" if sel else txt)
        out.append(f"LIST {ln} = " + ", ".join(parts))
    for name, ty, lit in VARS:
        out.append(f"VAR {name} = {render(lit)}")
    return out


def header():
    """The declarations for `inkmodel expr`."""
    defs = [[ln, [[it, v] for it, v, _ in items]] for ln, items in LISTS]
    vs = [[ln, list_var_value(ln)] for ln, _ in LISTS] + [[n, lit] for n, ty, lit in VARS]
    return {"defs": defs, "vars": vs}


# ---- rendering ------------------------------------------------------------------------------

FUNC = {"MIN", "MAX", "POW", "FLOOR", "CEILING", "INT", "FLOAT", "LIST_MIN", "LIST_MAX", "LIST_ALL", "LIST_COUNT",
        "LIST_VALUE", "LIST_INVERT"}
# precedence classes on which the reference parser and this compiler agree
PREC = {"||": 1, "&&": 2, "==": 3, "!=": 3, "<": 4, ">": 4, "<=": 4, ">=": 4, "?": 4, "!?": 4, "^": 4,
        "+": 5, "-": 5, "*": 6, "/": 6, "%": 6}
ALT = {"&&": ["&&", "and"], "||": ["||", "or"], "%": ["%", "mod"], "?": ["?", "has"], "!?": ["!?", "hasnt"]}


def fmt_float(bits):
    x = struct.unpack("<f", struct.pack("<I", bits))[0]
    s = repr(round(x, 6))
    if "e" in s or "inf" in s or "nan" in s:
        raise ValueError("float literal not renderable")
    if "." not in s:
        s += ".0"
    return s


def render(e, rng=None, loose=0.0):
    """Ink source of a tree; fully parenthesised unless `loose` lets a safe pair of parentheses go."""
    k = e[0]
    if k == "i":
        return str(e[1]) if e[1] >= 0 else f"-{-e[1]}"
    if k == "f":
        s = fmt_float(e[1])
        return s
    if k == "b":
        return "true" if e[1] else "false"
    if k == "s":
        return '"' + e[1] + '"'
    if k == "var":
        return e[1]
    if k == "list":
        return "(" + ", ".join(it[1] for it in e[1]) + ")"
    if k == "un":
        op, x = e[1], e[2]
        if op in FUNC:
            return f"{op}({render(x, rng, loose)})"
        inner = render(x, rng, loose)
        if x[0] in ("bin",) or (x[0] in ("i", "f") and inner.startswith("-")) or (x[0] == "un" and x[1] not in FUNC):
            inner = f"({inner})"
        if op == "_":
            return f"-{inner}"
        if op == "!":
            return ("not " if (rng and rng.random() < 0.5) else "!") + inner
        raise ValueError(op)
    if k == "bin":
        op, l, r = e[1], e[2], e[3]
        if op in FUNC:
            return f"{op}({render(l, rng, loose)}, {render(r, rng, loose)})"
        ls, rs = render(l, rng, loose), render(r, rng, loose)

        def wrap(child, text, left):
            if child[0] == "bin" and child[1] not in FUNC:
                cop = child[1]
                if rng and rng.random() < loose:
                    # leave the parentheses out only where the reference parser and this compiler
                    # agree on the reading (see DESIGN.md, C07: contested precedences are not judged)
                    tighter = PREC[cop] > PREC[op]
                    contested = ({cop, op} <= {"&&", "||"}) or (PREC[cop] == 4 and PREC[op] == 3)
                    if tighter and not contested:
                        return text
                    if left and cop == op and op in ("+", "*", "&&", "||", "-"):
                        return text
                return f"({text})"
            if child[0] in ("i", "f") and text.startswith("-") and not left:
                return f"({text})"
            if child[0] == "un" and child[1] == "_" and not left:
                return f"({text})"
            return text

        sym = op
        if rng and op in ALT:
            sym = rng.choice(ALT[op])
        return f"{wrap(l, ls, True)} {sym} {wrap(r, rs, False)}"
    if k == "fromint":
        return f"{e[1]}({render(e[2], rng, loose)})"
    if k == "range":
        return f"LIST_RANGE({render(e[1], rng, loose)}, {render(e[2], rng, loose)}, {render(e[3], rng, loose)})"
    raise ValueError(k)


# ---- typed generation -------------------------------------------------------------------------

# the smallest int cannot be written as a literal: it is computed
I32_MIN = ["bin", "-", ["i", -2147483647], ["i", 1]]
INT_LITS = [0, 1, 2, 3, 5, 7, 10, -1, -4, 100, 46341, 65536, 2147483647]
FLOAT_LITS = [0.0, 0.5, 1.0, 1.5, 2.0, 0.25, 3.0, 10.0, -1.5, 1024.0, 0.125]
STR_LITS = ["abc", "b", "x y", "", "Hello", "bc", "7"]


def leaf(rng, ty):
    pool = [v for v in VARS if v[1] == ty]
    if ty == "list":
        x = rng.random()
        if x < 0.35:
            return ["var", rng.choice([ln for ln, _ in LISTS])]
        if x < 0.55:
            return ["var", rng.choice(["la", "lb", "le"])]
        if x < 0.62:
            return ["list", [], []]
        n = rng.choice([1, 2, 2, 3, 4])
        items = rng.sample(sorted(ITEM), n)
        if n == 1:
            # `(x)` with one item
            return lit_list(items)
        return lit_list(items)
    if pool and rng.random() < 0.4:
        return ["var", rng.choice(pool)[0]]
    if ty == "int":
        if rng.random() < 0.04:
            return I32_MIN
        return ["i", rng.choice(INT_LITS)]
    if ty == "float":
        return ["f", f32bits(rng.choice(FLOAT_LITS))]
    if ty == "bool":
        return ["b", rng.random() < 0.5]
    if ty == "str":
        return ["s", rng.choice(STR_LITS)]
    raise ValueError(ty)


def gen(rng, ty, depth, faulty=0.0):
    """A tree of static type `ty`.  With probability `faulty` an operand type is chosen at random
    (fault-prone programs for C04)."""
    if depth <= 0 or rng.random() < 0.15:
        return leaf(rng, ty)

    def sub(t):
        if faulty and rng.random() < faulty:
            t = rng.choice(["int", "float", "bool", "str", "list"])
        return gen(rng, t, depth - 1, faulty)

    num = lambda: rng.choice(["int", "int", "float"])
    if ty == "int":
        c = rng.randrange(12)
        if c < 5:
            return ["bin", rng.choice(["+", "-", "*", "/", "%"]), sub("int"), sub("int")]
        if c == 5:
            return ["bin", rng.choice(["MIN", "MAX"]), sub("int"), sub("int")]
        if c == 6:
            return ["un", rng.choice(["INT", "FLOOR", "CEILING"]), sub(rng.choice(["int", "float"]))] if rng.random() < 0.5 \
                else ["un", "INT", sub("float")]
        if c == 7:
            return ["un", "_", sub("int")]
        if c == 8:
            return ["un", rng.choice(["LIST_COUNT", "LIST_VALUE"]), sub("list")]
        if c == 9:
            return ["bin", "+", sub("bool"), sub("int")]          # bool coerced to int
        if c == 10:
            return ["un", "!", sub("list")]                         # `not list` is 1 / 0
        return ["bin", rng.choice(["+", "-", "*"]), sub("int"), sub("int")]
    if ty == "float":
        c = rng.randrange(8)
        if c < 3:
            a, b = rng.choice([("float", "float"), ("int", "float"), ("float", "int")])
            return ["bin", rng.choice(["+", "-", "*", "/"]), sub(a), sub(b)]
        if c == 3:
            return ["un", "FLOAT", sub(rng.choice(["int", "float"]))]
        if c == 4:
            return ["bin", "POW", ["i", rng.choice([2, 3, 10, -2])], ["i", rng.choice([0, 1, 2, 3, 5])]]
        if c == 5:
            return ["un", rng.choice(["FLOOR", "CEILING", "_"]), sub("float")]
        if c == 6:
            return ["bin", rng.choice(["MIN", "MAX"]), sub("float"), sub(rng.choice(["int", "float"]))]
        return ["bin", "%", leaf(rng, "float"), ["f", f32bits(rng.choice([0.5, 2.0, 0.25, 1.5]))]]
    if ty == "bool":
        c = rng.randrange(11)
        if c < 3:
            t = rng.choice(["int", "float", "int"])
            return ["bin", rng.choice(["==", "!=", "<", ">", "<=", ">="]), sub(t), sub(rng.choice([t, num()]))]
        if c == 3:
            return ["bin", rng.choice(["==", "!="]), sub("str"), sub("str")]
        if c == 4:
            return ["bin", rng.choice(["&&", "||"]), sub("bool"), sub("bool")]
        if c == 5:
            return ["un", "!", sub(rng.choice(["bool", "int"]))]
        if c == 6:
            return ["bin", rng.choice(["?", "!?"]), sub("str"), sub("str")]
        if c == 7:
            return ["bin", rng.choice(["?", "!?"]), sub("list"), sub("list")]
        if c == 8:
            return ["bin", rng.choice(["==", "!=", "<", ">", "<=", ">="]), sub("list"), sub("list")]
        if c == 9:
            return ["bin", rng.choice(["&&", "||"]), sub(rng.choice(["int", "bool", "list"])), sub(rng.choice(["int", "bool"]))]
        return ["bin", rng.choice(["==", "!="]), sub("bool"), sub("bool")]
    if ty == "str":
        c = rng.randrange(4)
        if c < 2:
            return ["bin", "+", sub("str"), sub("str")]
        if c == 2:
            return ["bin", "+", sub("str"), sub(rng.choice(["int", "float", "bool"]))]
        return ["bin", "+", sub(rng.choice(["int", "float"])), sub("str")]
    if ty == "list":
        c = rng.randrange(12)
        if c < 4:
            return ["bin", rng.choice(["+", "-", "^"]), sub("list"), sub("list")]
        if c == 4:
            return ["bin", rng.choice(["+", "-"]), sub("list"), ["i", rng.choice([0, 1, 2, 3, -1])]]
        if c == 5:
            return ["bin", rng.choice(["+", "-"]), sub("list"), sub("int")]
        if c in (6, 7):
            return ["un", rng.choice(["LIST_MIN", "LIST_MAX", "LIST_ALL", "LIST_INVERT"]), sub("list")]
        if c == 8:
            return ["fromint", rng.choice([ln for ln, _ in LISTS]), sub("int") if rng.random() < 0.4 else ["i", rng.choice([0, 1, 2, 3, 5, 8])]]
        if c == 9:
            return ["range", sub("list"), ["i", rng.choice([0, 1, 2, 3])], ["i", rng.choice([1, 2, 4, 9])]]
        if c == 10:
            return ["range", sub("list"), sub("list"), sub("list")]
        return ["un", "LIST_ALL", ["bin", "+", sub("list"), sub("list")]]
    raise ValueError(ty)


def static_type(e):
    """Best-effort static type (for the evidence distribution)."""
    k = e[0]
    return {"i": "int", "f": "float", "b": "bool", "s": "str", "list": "list"}.get(k, k)


def leaves_all():
    """A fixed leaf set for the exhaustive depth-1 enumeration."""
    ls = [["i", 0], ["i", 3], ["i", -1], ["i", 2147483647], I32_MIN, ["f", f32bits(2.5)], ["f", f32bits(0.0)],
          ["b", True], ["b", False], ["s", "abc"], ["s", "b"], ["s", ""],
          ["var", "A"], ["var", "B"], ["var", "C"], ["var", "la"], ["var", "le"], ["list", [], []],
          lit_list(["a2", "b2"]), lit_list(["d7", "a1", "b5"])]
    return ls


BIN_OPS = ["+", "-", "*", "/", "%", "==", "!=", "<", ">", "<=", ">=", "&&", "||", "MIN", "MAX", "POW", "?", "!?", "^"]
UN_OPS = ["_", "!", "FLOOR", "CEILING", "INT", "FLOAT", "LIST_MIN", "LIST_MAX", "LIST_ALL", "LIST_COUNT", "LIST_VALUE",
          "LIST_INVERT"]


def exhaustive_depth1():
    ls = leaves_all()
    for op in UN_OPS:
        for a in ls:
            yield ["un", op, a]
    for op in BIN_OPS:
        for a in ls:
            for b in ls:
                yield ["bin", op, a, b]


def story(exprs, rng=None, loose=0.0):
    """Ink source with one knot per expression; returns (source, [rendered texts])."""
    lines = declarations_ink()
    lines += [f"VAR r{k} = 0" for k in range(len(exprs))]
    lines.append("-> DONE")
    texts = []
    for k, e in enumerate(exprs):
        t = render(e, rng, loose)
        texts.append(t)
        lines.append(f"== e{k} ==")
        lines.append(f"~ r{k} = {t}")
        lines.append("{r" + str(k) + "}")
        lines.append("-> DONE")
    return "\n".join(lines) + "\n", texts


if __name__ == "__main__":
    import json
    import sys
    rng = random.Random(int(sys.argv[1]) if len(sys.argv) > 1 else 1)
    es = [gen(rng, rng.choice(["int", "float", "bool", "str", "list"]), 3) for _ in range(10)]
    src, texts = story(es, rng, 0.5)
    print(src)
    print(json.dumps(header()))
    for e in es:
        print(json.dumps(e))
