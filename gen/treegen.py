"""Random story documents at the bytecode level (content trees), for the
loader / path / audit ties (C19, C14, C06).  Deterministic in the rng given."""
import json
import random

NAMES = ["knot", "stitch", "g-0", "c-0", "b", "s1", "función", "名前", "a_b", "x9", "9x", "k2", "glob decl"]
BAD_NAMES = ["^", "5", "+7", "007", "a.b", "", "0"]
CMDS = ["ev", "out", "/ev", "du", "pop", "~ret", "->->", "str", "/str", "nop", "choiceCnt", "turn",
        "turns", "readc", "rnd", "srnd", "visit", "seq", "thread", "done", "end", "listInt", "range",
        "lrnd", "#", "/#"]
NATIVES = ["+", "-", "/", "*", "%", "_", "==", ">", "<", ">=", "<=", "!=", "!", "&&", "||", "MIN", "MAX",
           "POW", "FLOOR", "CEILING", "INT", "FLOAT", "?", "!?", "L^", "LIST_MIN", "LIST_MAX", "LIST_ALL",
           "LIST_COUNT", "LIST_VALUE", "LIST_INVERT"]
TEXTS = ["hello", " ", "\t", "a\"b", "back\\slash", "tab\there", "é😀", "", "x.y", "line"]


class TreeGen:
    def __init__(self, rng, wellformed=True):
        self.rng = rng
        self.wf = wellformed
        self.paths = []  # absolute paths of generated containers (for references)

    def leaf(self, own_path):
        r = self.rng
        k = r.randrange(16)
        if k == 0:
            return r.choice([True, False])
        if k == 1:
            return r.choice([0, 1, -1, 7, 2147483647, -2147483648, 42])
        if k == 2:
            return r.choice([0.5, 1.5, -2.25, 3.0e2, 1e-3])
        if k in (3, 4, 5):
            return "^" + r.choice(TEXTS)
        if k == 6:
            return "\n"
        if k == 7:
            return r.choice(CMDS)
        if k == 8:
            return r.choice(NATIVES)
        if k == 9:
            return r.choice(["<>", "void"])
        if k == 10:
            tgt = self.target(own_path)
            kind = r.choice(["->", "f()", "->t->"])
            d = {kind: tgt}
            if r.random() < 0.2:
                d["c"] = True
            if r.random() < 0.1:
                d = {"->": "someVar", "var": True}
            if r.random() < 0.1:
                d = {"x()": "extFn", "exArgs": r.randrange(3)}
            return d
        if k == 11:
            return {"*": self.target(own_path), "flg": r.randrange(32)}
        if k == 12:
            return r.choice([{"VAR?": "v"}, {"CNT?": self.target(own_path)}, {"VAR=": "v"},
                             {"temp=": "t", "re": True}, {"#": "tag text"}])
        if k == 13:
            return {"^->": self.target(own_path)}
        if k == 14:
            return r.choice([{"^var": "v", "ci": -1}, {"^var": "w", "ci": 0},
                             {"list": {"L.a": 1, "L.b": 2}}, {"list": {}, "origins": ["L"]}])
        return "^text"

    def target(self, own_path):
        r = self.rng
        if self.paths and r.random() < 0.8:
            p = r.choice(self.paths)
            if r.random() < 0.3 and own_path:
                # relative form: climb from own container to the root, then descend
                ups = len(own_path)
                return "." + ".".join(["^"] * ups + [str(c) for c in p]) if p else ".^"
            if p:
                s = ".".join(str(c) for c in p)
                if r.random() < 0.3:
                    s += "." + str(r.randrange(3))
                return s
        return r.choice(["nowhere", "0", "knot.stitch", ".^.^", "0.0.0"])

    def container(self, depth, own_path, name=None):
        r = self.rng
        n = r.randrange(0, 5 if depth < 3 else 3)
        content = []
        used = set()
        for i in range(n):
            if depth < 4 and r.random() < 0.35:
                cname = None
                if r.random() < 0.5:
                    pool = NAMES if self.wf or r.random() < 0.6 else BAD_NAMES
                    cname = r.choice(pool)
                    if self.wf and cname in used:
                        cname = None
                if cname is not None and cname != "":
                    used.add(cname)
                    child_path = own_path + [cname]
                else:
                    child_path = own_path + [i]
                self.paths.append(child_path)
                content.append(self.container(depth + 1, child_path, cname))
            else:
                content.append(self.leaf(own_path))
        term = {}
        if name is not None:
            term["#n"] = name
        if r.random() < 0.4:
            term["#f"] = r.randrange(8)
        if depth < 3 and r.random() < 0.4:
            for _ in range(r.randrange(1, 3)):
                pool = NAMES if self.wf or r.random() < 0.6 else BAD_NAMES
                k = r.choice(pool)
                if self.wf and (k in used or k == ""):
                    continue
                used.add(k)
                child_path = own_path + [k]
                self.paths.append(child_path)
                sub = self.container(depth + 1, child_path, None)
                # the loader passes the key as the name; "#n" may override it
                if not self.wf and r.random() < 0.2:
                    sub[-1] = dict(sub[-1] or {}, **{"#n": r.choice(NAMES)})
                term[k] = sub
        content.append(term if term else None)
        return content

    def story(self):
        root = self.container(0, [])
        return {"inkVersion": 21, "root": root,
                "listDefs": {"L": {"a": 1, "b": 2, "c": 3}, "M": {"x": 1, "y": 5}}}


def gen_story(seed, wellformed=True):
    rng = random.Random(seed)
    return TreeGen(rng, wellformed).story()


PATH_ALPHABET = ["a", "b", "knot", "0", "1", "12", "007", "+5", "^", ".", "..", "", "x-y", "é", "18446744073709551615",
                 "18446744073709551616", "-1", " ", "g-0"]


def gen_path_text(rng):
    n = rng.randrange(0, 5)
    parts = [rng.choice(PATH_ALPHABET) for _ in range(n)]
    s = ".".join(parts)
    if rng.random() < 0.3:
        s = "." + s
    return s


if __name__ == "__main__":
    import sys
    print(json.dumps(gen_story(int(sys.argv[1]) if len(sys.argv) > 1 else 1)))
