#!/usr/bin/env python3
"""srcgen: random generator of core-Ink programs as ASTs (the JSON format read by
`inkmodel source`, see Driver/SourceMain.lean) and renderer of ASTs to Ink text.

    generate(seed, size, off=()) -> ast      (JSON-serialisable dict)
    render(ast)                  -> str      Ink source
    meta(ast)                    -> {"globals": [...], "counted": [...]}

`off` names shapes to keep out of the program (see RESTRICTED below: shapes the
repo compiler / runtime is known to get wrong; they are off by default and can be
switched back on with `on=`).

All strings in the AST are exact: rendering is plain concatenation, so the AST says
which blanks are part of the text.
"""
import json
import random
import sys

WORDS = ("apple river stone cloud horse lamp door window garden letter tower bridge silver quiet "
         "morning captain harbour candle forest pocket mirror thunder paper winter copper velvet "
         "lantern meadow marble signal").split()

# Shapes that are OFF by default because the repo pipeline deviates from Ink on them
# (each is documented in REPORT.md with a reproducer).  `on=[name]` re-enables one.
RESTRICTED = {
    "choice_text_divert": "B1: `* text -> knot`, `* a [b] c -> knot`: line break before the divert",
    "bracket_end_tag_divert": "B10: `* [b] text # tag -> target`: the tag is lost",
    "tagline_divert": "B11: `# tag -> knot` on a line without text: the divert becomes tag text",
    "seq_in_choice_start": "B12: sequence in the text before [ of a choice: duplicated, two counters",
    "cond_in_choice_text": "B13: inline conditional in the displayed text of a choice is not evaluated",
    "once_seq_in_choice_text": "B14: exhausted once-only sequence in displayed choice text: runtime error",
    "once_seq_in_function": "B14: exhausted once-only sequence in a function called in an expression: wrong value",
    "plus_equals_call": "B15: `~ x += f()`: no line break after what f prints",
    "nested_label_after_opening_gather": "B16: label nested in a choice of a weave that opens with a labelled gather: wrong path",
    "root_fallback_body": "C1: fallback choice with content in the top-level flow (error report depends on line count)",
    "cond_fallback_body": "B3: `* {c} ->` followed by body lines",
    "root_choices_after_gather": "B4: top-level content whose last gather has choices",
    "fallback_after_open_line": "B5: fallback choice taken while the current line is not finished",
    "tag_in_plain_choice": "B6: tag in the text of a choice without [ ]",
    "switch_after_open_line": "B7: multi-branch block right after an unfinished line",
    "tag_before_empty_brackets": "B8: `* text # tag [] more`",
    "empty_labelled_gather": "an empty labelled gather directly followed by another gather: in the compiled form (of the "
                             "reference compiler too) the second gather is nested in the first, so a divert to the second "
                             "also counts a visit of the first; the reference interpreter does not model that artefact",
}


class Gen:
    def __init__(self, seed, size, on=(), off=()):
        self.r = random.Random(seed * 7919 + size)
        self.size = size
        self.off = (set(RESTRICTED) - set(on)) | set(off)
        self.next_id = 0
        self.next_label = 0
        self.globals = []          # (name, type, value)
        self.knots = []            # names of ordinary knots, in order
        self.tunnels = []          # names of tunnel knots
        self.functions = []        # (name, nparams, prints)
        self.vfunctions = []       # (name, nparams): functions without a return value that print text
        self.labels = []           # (path, knotindex) labelled gathers that may be diverted to
        self.count_paths = []      # paths whose read count may be asked for
        self.loopvars = 0
        self.knot_params = {}      # knot name -> number of parameters
        self.threads = []          # names of knots meant to be run as threads
        self.cur_knot = None       # index of the knot being generated
        self.nested_labels_ok = True

    # ------------------------------------------------------------ helpers
    def has(self, feature):
        return feature not in self.off

    def p(self, prob):
        return self.r.random() < prob

    def fresh_id(self):
        self.next_id += 1
        return self.next_id

    def word(self):
        return self.r.choice(WORDS)

    def words(self, lo=1, hi=3):
        return " ".join(self.word() for _ in range(self.r.randint(lo, hi)))

    def vars_of(self, ty):
        return [g[0] for g in self.globals if g[1] == ty]

    # ------------------------------------------------------------ expressions
    def int_expr(self, depth=0, scope=()):
        r = self.r
        choices = ["lit", "var", "var"]
        if depth < 2:
            choices += ["bin", "bin"]
        if self.count_paths:
            choices += ["reads"]
        if depth < 2 and self.p(0.15) and self.has("special"):
            choices += ["special"]
        if depth < 2 and self.functions and self.p(0.3):
            choices += ["call"]
        k = r.choice(choices)
        if k == "lit":
            if self.p(0.08):
                return ["lit", {"i": r.choice([2147483647, -2147483647, 65536, 100000])}]
            return ["lit", {"i": r.randint(-3, 9)}]
        if k == "var":
            vs = self.vars_of("int") + [s for s in scope]
            if vs:
                return ["var", r.choice(vs)]
            return ["lit", {"i": r.randint(0, 5)}]
        if k == "reads":
            return ["reads", r.choice(self.count_paths)]
        if k == "special":
            which = r.choice(["choiceCount", "turns", "turnsSince"])
            if which == "turnsSince" and self.knots and self.has("turns_since"):
                return ["turnsSince", r.choice(self.knots)]
            if which == "turns":
                return ["turns"]
            return ["choiceCount"]
        if k == "call":
            f = r.choice(self.functions)
            return ["call", f[0], [self.int_expr(depth + 1, scope) for _ in range(f[1])]]
        op = r.choice(["add", "add", "sub", "mul", "div", "mod"])
        a = self.int_expr(depth + 1, scope)
        b = self.int_expr(depth + 1, scope)
        if op in ("div", "mod") and not self.p(0.15):
            # mostly keep divisors away from zero
            b = ["lit", {"i": r.choice([1, 2, 3, -2, 7])}]
        return ["bin", op, a, b]

    def arg_expr(self):
        """argument of a divert (B9: TURNS_SINCE is not registered there)"""
        saved = set(self.off)
        self.off.add("turns_since")
        e = self.int_expr(1)
        self.off = saved
        return e

    def bool_expr(self, depth=0, scope=()):
        r = self.r
        choices = ["cmp", "cmp", "cmp"]
        if self.vars_of("bool"):
            choices += ["var"]
        if depth < 2:
            choices += ["not", "and", "or"]
        if self.vars_of("str") and self.p(0.3):
            choices += ["streq"]
        if self.count_paths:
            choices += ["visited", "visited"]
        k = r.choice(choices)
        if k == "var":
            return ["var", r.choice(self.vars_of("bool"))]
        if k == "not":
            return ["un", "not", self.bool_expr(depth + 1, scope)]
        if k in ("and", "or"):
            return ["bin", k, self.bool_expr(depth + 1, scope), self.bool_expr(depth + 1, scope)]
        if k == "streq":
            return ["bin", r.choice(["eq", "ne"]), ["var", r.choice(self.vars_of("str"))],
                    ["lit", {"s": self.word()}]]
        if k == "visited":
            path = r.choice(self.count_paths)
            return r.choice([["reads", path], ["bin", "gt", ["reads", path], ["lit", {"i": r.randint(0, 2)}]],
                             ["bin", "eq", ["reads", path], ["lit", {"i": r.randint(0, 2)}]],
                             ["un", "not", ["reads", path]]])
        op = r.choice(["eq", "ne", "lt", "le", "gt", "ge"])
        return ["bin", op, self.int_expr(depth + 1, scope), self.int_expr(depth + 1, scope)]

    def str_expr(self, scope=()):
        vs = self.vars_of("str")
        k = self.r.choice(["lit", "var", "cat"])
        if k == "var" and vs:
            return ["var", self.r.choice(vs)]
        if k == "cat" and vs:
            return ["bin", "add", ["var", self.r.choice(vs)], ["lit", {"s": self.word()}]]
        return ["lit", {"s": self.word()}]

    def any_print(self, scope=()):
        k = self.r.choice(["int", "int", "bool", "str"])
        if k == "int":
            return self.int_expr(1, scope)
        if k == "bool":
            return self.bool_expr(1, scope)
        return self.str_expr(scope)

    # ------------------------------------------------------------ inline content
    def text_run(self, scope=(), depth=0, allow_seq=True):
        """A list of inline parts forming part of a line; no blanks at either end."""
        r = self.r
        parts = []
        n = r.randint(1, 3)
        for i in range(n):
            if i > 0:
                parts.append(["t", " "])
            k = r.choice(["t", "t", "t", "p", "if", "seq"])
            if k == "p" and self.has("print"):
                parts.append(["p", self.any_print(scope)])
            elif k == "if" and depth < 1 and self.has("inline_cond"):
                yes = self.text_run(scope, depth + 1, False) if self.p(0.9) else []
                no = self.text_run(scope, depth + 1, False) if (self.p(0.6) or not yes) else []
                parts.append(["if", self.bool_expr(1, scope), yes, no])
            elif k == "seq" and depth < 1 and allow_seq and self.has("seq"):
                kind = r.choice(["stopping", "cycle", "once"] if self.has("once_seq") else ["stopping", "cycle"])
                alts = []
                saved = set(self.off)
                self.off.add("turns_since")      # B9: TURNS_SINCE inside a sequence is not registered
                for _ in range(r.randint(2, 3)):
                    alts.append(self.text_run(scope, depth + 1, False) if self.p(0.85) else [])
                self.off = saved
                parts.append(["seq", self.fresh_id(), kind, alts])
            else:
                parts.append(["t", self.words()])
        return merge_text(parts)

    def line(self, scope=(), divert=None, in_function=False):
        """One content line: parts (+ glue, tags) and maybe a divert at its end."""
        r = self.r
        parts = [["t", self.word().capitalize()], ["t", " "]] + self.text_run(scope)
        if self.has("glue") and self.p(0.12):
            parts = [["glue"], ["t", " "]] + parts if self.has("glue_start") else parts
        tags = []
        if self.has("tags") and self.p(0.2):
            tags = [["tag", self.word()] for _ in range(r.randint(1, 2))]
        end_glue = self.has("glue") and self.p(0.15) and not tags
        if end_glue:
            parts += [["t", " "], ["glue"]]
        if tags:
            parts += [["t", " "]] + tags
        if divert is not None:
            if not end_glue and not tags:
                parts += [["t", " "]]
            parts += [divert]
        elif not in_function and not tags and not end_glue and self.cur_knot is not None:
            if self.p(0.06) and self.has("inline_cond_divert"):
                d = self.exit_divert(self.cur_knot)
                parts += [["t", " "], ["if", self.bool_expr(1, scope), [d], []]]
            elif self.p(0.06) and self.tunnels and self.has("inline_tunnel") and self.has("tunnel"):
                parts += [["t", " "], ["tunnel", r.choice(self.tunnels), []]]
        return ["line", merge_text(parts)]

    # ------------------------------------------------------------ statements
    def simple_stmts(self, n, scope=(), in_function=False, knot_index=None, depth=0):
        out = []
        for _ in range(n):
            out += self.simple_stmt(scope, in_function, knot_index, depth)
        return out

    def simple_stmt(self, scope, in_function, knot_index, depth):
        r = self.r
        kinds = ["line"] * 5 + ["set"] * 3
        if self.has("tags"):
            kinds += ["tagline"]
        if depth < 2 and self.has("block_cond"):
            kinds += ["cond"] * 2
        if self.tunnels and not in_function and self.has("tunnel"):
            kinds += ["tunnel"] * 2
        if self.functions and self.has("function"):
            kinds += ["run"]
        if self.vfunctions and self.has("function"):
            kinds += ["vcall"] * 2
        if self.threads and not in_function and depth == 0 and self.has("thread"):
            kinds += ["thread"]
        if not in_function and self.has("temp") and self.p(0.2):
            kinds += ["temp"]
        k = r.choice(kinds)
        if k == "line":
            return [self.line(scope, in_function=in_function)]
        if k == "tagline":
            return [["line", [["tag", self.word()]]]]
        if k == "set":
            return [self.assignment(scope)]
        if k == "temp":
            return [["temp", "tmp" + str(r.randint(0, 1)), self.int_expr(1, scope)]]
        if k == "run":
            f = r.choice(self.functions)
            return [["run", ["call", f[0], [self.int_expr(1, scope) for _ in range(f[1])]]]]
        if k == "vcall":
            f = r.choice(self.vfunctions)
            call = ["call", f[0], [self.int_expr(1, scope) for _ in range(f[1])]]
            shape = r.choice(["run", "alone", "after", "before"])
            if shape == "run":
                return [["run", call]]
            if shape == "alone":
                return [["line", [["p", call]]]]
            if shape == "after":
                return [["line", [["t", self.word().capitalize() + " "], ["p", call]]]]
            return [["line", [["p", call], ["t", " " + self.words()]]]]
        if k == "tunnel":
            return [["tunnel", r.choice(self.tunnels), []]]
        if k == "thread":
            return [["thread", r.choice(self.threads)]]
        if k == "cond":
            nb = r.choice([1, 1, 2, 3])
            branches = []
            for _ in range(nb):
                saved_f = self.functions
                if nb > 1 and not self.has("switch_after_open_line"):
                    self.functions = []      # B7: a function printing text inside the condition
                c = self.bool_expr(0, scope)
                self.functions = saved_f
                branches.append([c,
                                 self.simple_stmts(r.randint(1, 2), scope, in_function, knot_index, depth + 1)])
            other = self.simple_stmts(r.randint(1, 2), scope, in_function, knot_index, depth + 1) \
                if (nb > 1 or self.p(0.5)) else []
            if nb > 1 and not self.has("switch_after_open_line"):
                # B7: the repo compiler leaves out the line break at the start of the branches of a
                # multi-branch block: keep a complete line right before such a block
                return [["line", [["t", self.words().capitalize()]]], ["cond", branches, other]]
            return [["cond", branches, other]]
        return []

    def assignment(self, scope=()):
        r = self.r
        ints = self.vars_of("int")
        bools = self.vars_of("bool")
        strs = self.vars_of("str")
        k = r.choice(["int"] * 4 + (["bool"] if bools else []) + (["str"] if strs else []))
        ints = ints + list(scope)
        if k == "int" and ints:
            x = r.choice(ints)
            form = r.choice(["set", "set", "inc", "sugar"])
            if form == "inc":
                return ["set", x, ["bin", r.choice(["add", "sub"]), ["var", x], self.int_expr(1, scope)]]
            if form == "sugar" and self.has("plus_equals"):
                op = r.choice(["add", "sub"])
                rhs = self.int_expr(1, scope)
                if has_call(rhs) and not self.has("plus_equals_call"):
                    return ["set", x, ["bin", op, ["var", x], rhs]]       # B15
                return ["set", x, ["bin", op, ["var", x], rhs], "+=" if op == "add" else "-="]
            return ["set", x, self.int_expr(0, scope)]
        if k == "bool" and bools:
            return ["set", r.choice(bools), self.bool_expr(0, scope)]
        if k == "str" and strs:
            return ["set", r.choice(strs), self.str_expr(scope)]
        return ["line", [["t", self.words()]]]

    # ------------------------------------------------------------ weave
    def exit_divert(self, knot_index, allow_back=False):
        """Where a knot's flow goes on: a later knot, END or DONE (or back, inside choices)."""
        r = self.r
        later = self.knots[knot_index + 1:] if knot_index is not None else self.knots
        opts = []
        if later:
            opts += [r.choice(later)] * 8
        opts += ["END", "DONE"]
        if allow_back and knot_index is not None:
            opts += [self.knots[knot_index]] * 3
            labs = [p for (p, ki) in self.labels if ki == knot_index]
            if labs and self.has("divert_label"):
                opts += [r.choice(labs)] * 2
            if knot_index > 0 and self.p(0.3):
                opts += [r.choice(self.knots[:knot_index])]
        t = r.choice(opts)
        args = [self.arg_expr() for _ in range(self.knot_params.get(t, 0))]
        return ["->", t, args]

    def weave(self, flow_path, knot_index, depth, final, scope=(), in_tunnel=False, is_root=False):
        """A list of sections.  `final`: this is the top level of a knot / stitch / the root:
        its last section must send the flow on."""
        r = self.r
        if depth >= 3 or (depth == 2 and not self.has("nested_gather")):
            nsec = 1
        elif depth == 2:
            nsec = r.choice([1, 1, 2])
        else:
            nsec = r.choice([1, 1, 2, 2, 3])
        secs = []
        for si in range(nsec):
            label = None
            if depth == 1 and si == 0:
                self.nested_labels_ok = True
            if si > 0 or self.p(0.15):
                if self.p(0.35) and self.has("gather_label") and (depth == 1 or self.nested_labels_ok):
                    if depth == 1 and not self.has("nested_label_after_opening_gather"):
                        # B16: after an opening labelled gather the compiler gets the paths of labels
                        # nested in choices wrong
                        self.nested_labels_ok = False
                    label = "g" + str(self.next_label)
                    self.next_label += 1
            is_gather = si > 0 or label is not None
            stmts = self.simple_stmts(r.randint(0 if is_gather else 1, 2 + (self.size > 2)), scope,
                                      knot_index=knot_index)
            if is_gather and label is None and not (stmts and stmts[0][0] == "line" and stmts[0][1][0][0] == "t"):
                # a bare "-" line is a known trouble spot of the repo compiler: gathers without
                # label always carry text on their own line
                stmts.insert(0, ["line", [["t", self.words().capitalize()]]])
            last = si == nsec - 1
            nch = 0
            if depth < (2 if self.size < 3 else 3) and self.has("choices"):
                nch = r.choice([0, 2, 2, 3, 1]) if not (last and nsec > 1) else r.choice([0, 0, 2])
                if is_root and last and nsec > 1 and not self.has("root_choices_after_gather"):
                    nch = 0
            if label is not None and not stmts and nch == 0 and not self.has("empty_labelled_gather"):
                # a labelled gather with nothing in it, directly followed by the next gather: the engine keeps
                # the next gather INSIDE it (a structural artefact of the compiled form that read counts show)
                stmts.append(["line", [["t", self.words().capitalize()]]])
            sec = {"label": label, "stmts": stmts, "choices": []}
            secs.append(sec)
            if label is not None:
                path = (flow_path + "." if flow_path else "") + label
                if knot_index is not None:
                    self.labels.append((path, knot_index))
                self.count_paths.append(path)
            choices = []
            for ci in range(nch):
                choices.append(self.choice(flow_path, knot_index, depth, scope, in_tunnel,
                                           more_sections=not last, index=ci, count=nch, is_root=is_root))
            sec["choices"] = choices
            if any(not c["start"] and not c["bracket"] for c in choices) and not self.has("fallback_after_open_line"):
                # B5: the repo compiler leaves out the line break that starts a fallback choice's
                # content: make sure the line before is complete
                if not (stmts and stmts[-1][0] == "line" and closed_line(stmts[-1])):
                    stmts.append(["line", [["t", self.words().capitalize()]]])
            if last and nch == 0 and final:
                # the flow must go on somewhere
                if in_tunnel:
                    stmts.append(["->->"])
                elif is_gather or self.p(0.93):
                    # (a knot that ends in a gather always diverts on: the repo compiler adds an
                    #  implicit DONE there, see REPORT.md B2)
                    d = self.exit_divert(knot_index)
                    if knot_index is not None and self.p(0.35) and self.has("loop") and self.has("block_cond"):
                        # a bounded loop back to this or an earlier knot
                        if "loops" not in [g[0] for g in self.globals]:
                            self.globals.append(("loops", "int", {"i": 0}))
                        back = r.choice(self.knots[:knot_index + 1])
                        stmts.append(["cond", [[["bin", "lt", ["var", "loops"], ["lit", {"i": r.randint(1, 3)}]],
                                                [["set", "loops", ["bin", "add", ["var", "loops"], ["lit", {"i": 1}]]],
                                                 ["->", back, [self.arg_expr() for _ in
                                                               range(self.knot_params.get(back, 0))]]]]], []])
                    if self.p(0.3) and self.has("line_divert"):
                        stmts.append(self.line(scope, divert=d))
                    else:
                        stmts.append(d)
        return secs

    def choice(self, flow_path, knot_index, depth, scope, in_tunnel, more_sections, index, count, is_root=False):
        r = self.r
        sticky = self.p(0.35)
        label = None
        # (B16 also hits a depth-1 labelled choice that follows nested choices in such a weave)
        if self.p(0.2) and self.has("choice_label") and self.nested_labels_ok:
            label = "c" + str(self.next_label)
            self.next_label += 1
        cond = None
        if self.p(0.35) and self.has("choice_cond"):
            cond = self.bool_expr(0, scope)
        fallback = index == count - 1 and count > 1 and self.p(0.3) and self.has("fallback")
        start, bracket, finish = [], [], []
        brackets = False
        tags_ok = self.has("choice_tags")
        if fallback:
            sticky = False
            # "* {c} ->" with the content on the following lines: the repo compiler takes the first
            # body line for the choice text (REPORT.md B3): conditional fallbacks divert at once
            # C1: a fallback taken after the top-level flow has reached its implicit DONE: whether running
            # out of content afterwards is reported depends on how many lines were printed in between
            if self.p(0.5) or (cond is not None and not self.has("cond_fallback_body")) or \
                    (is_root and not self.has("root_fallback_body")):
                finish = [self.exit_divert(knot_index, allow_back=False)]
        else:
            form = r.choice(["plain", "plain", "sb", "sbe", "be", "b", "s_e"])
            w = self.words
            brackets = form != "plain"
            def rich(parts, is_start=False, shown=True):
                """now and then an inline conditional / sequence / print inside choice text"""
                if self.p(0.2) and self.has("rich_choice_text"):
                    saved = set(self.off)
                    self.off.add("turns_since")
                    if is_start and not self.has("seq_in_choice_start"):
                        self.off.add("seq")       # B12
                    if shown and not self.has("cond_in_choice_text"):
                        self.off.add("inline_cond")   # B13
                    if shown and not self.has("once_seq_in_choice_text"):
                        self.off.add("once_seq")      # B14
                    extra = self.text_run(scope, 1 if self.p(0.5) else 0)
                    self.off = saved
                    return parts + [["t", " "]] + extra
                return parts
            if form == "plain":
                start = rich([["t", w().capitalize()]], True)
                if self.p(0.3) and self.has("print"):
                    # (TURNS_SINCE inside choice text is a known deviation of the repo compiler)
                    saved = set(self.off)
                    self.off.add("turns_since")
                    start += [["t", " "], ["p", self.int_expr(1, scope)]]
                    self.off = saved
            elif form == "sb":
                start = [["t", w().capitalize() + " "]]
                bracket = [["t", w()]]
            elif form == "sbe":
                start = rich([["t", w().capitalize()]], True) + [["t", " "]]
                bracket = rich([["t", w()]])
                finish = [["t", " "]] + rich([["t", w()]], shown=False)
            elif form == "be":
                bracket = [["t", w().capitalize()]]
                finish = [["t", " " + w().capitalize()]]
            elif form == "b":
                bracket = [["t", w().capitalize()]]
            else:
                start = [["t", w().capitalize() + " "]]
                finish = [["t", " " + w()]]
            if tags_ok and self.p(0.15) and (brackets or self.has("tag_in_plain_choice")):
                # B6: without [ ] the repo compiler does not repeat the choice's tags on the output line
                where = r.choice([x for x in (start, bracket, finish) if x])
                if where is start and not bracket and not self.has("tag_before_empty_brackets"):
                    where = finish          # B8
                where += [["t", " "], ["tag", self.word()]]
            tagged_end = any(p[0] == "tag" for p in finish)
            if self.p(0.3) and self.has("choice_divert") and not in_tunnel and \
                    not (tagged_end and not start and not self.has("bracket_end_tag_divert")):
                d = self.exit_divert(knot_index, allow_back=True)
                if form not in ("s_e", "b") and not self.has("choice_text_divert"):
                    # B1: "* text -> knot": the repo compiler ends the line before the divert
                    d = ["->", r.choice(["END", "DONE"]), []]
                finish = finish + [["t", " "], d]
        body = []
        has_divert = any(p[0] == "->" for p in finish)
        if not has_divert:
            body = self.weave(flow_path, knot_index, depth + 1, final=False, scope=scope, in_tunnel=in_tunnel)
            if fallback and all(not sc["stmts"] and not sc["choices"] for sc in body):
                body[0]["stmts"].append(["line", [["t", self.words().capitalize()]]])
            # a choice body at the end of everything needs to go somewhere
            if not more_sections and depth == 1 and self.p(0.8):
                lastsec = body[-1]
                if not lastsec["choices"]:
                    if in_tunnel:
                        lastsec["stmts"].append(["->->"])
                    else:
                        lastsec["stmts"].append(self.exit_divert(knot_index, allow_back=True))
        c = {"id": self.fresh_id(), "sticky": sticky, "label": label, "cond": cond,
             "start": merge_text(start), "bracket": merge_text(bracket), "end": merge_text(finish),
             "body": body, "brackets": brackets}
        if label is not None:
            path = (flow_path + "." if flow_path else "") + label
            self.count_paths.append(path)
        return c

    # ------------------------------------------------------------ program
    def program(self):
        r = self.r
        size = self.size
        # globals
        for i in range(r.randint(1, 2 + size // 2)):
            self.globals.append(("v" + str(i), "int", {"i": r.randint(0, 5)}))
        if self.p(0.6):
            self.globals.append(("flag", "bool", {"b": self.p(0.5)}))
        if self.p(0.5):
            self.globals.append(("name", "str", {"s": self.word()}))
        nknots = r.randint(1, 1 + size)
        self.knots = ["k" + str(i) for i in range(nknots)]
        if self.has("knot_params"):
            for kn in self.knots:
                if self.p(0.25):
                    self.knot_params[kn] = 1
        # functions first (they only use globals and their parameters)
        fknots = []
        if self.has("function"):
            for i in range(r.choice([0, 1, 2, 2, 3]) if size > 1 else r.choice([0, 1, 2])):
                fknots.append(self.function("f" + str(i)))
        tknots = []
        if self.has("tunnel"):
            for i in range(r.choice([0, 1, 1, 2]) if size > 1 else r.choice([0, 1])):
                name = "t" + str(i)
                tknots.append(self.tunnel_knot(name))
                self.tunnels.append(name)
        self.count_paths += self.knots
        thknots = []
        if self.has("thread") and self.p(0.35):
            name = "th0"
            self.threads.append(name)
            thknots.append(name)
        knots = []
        for i, name in enumerate(self.knots):
            knots.append(self.knot(name, i))
        root = self.weave("", None, 1 if self.p(0.3) else 3, final=True, is_root=True) if self.p(0.5) else \
            [{"label": None, "stmts": self.simple_stmts(r.randint(0, 2)) +
              [["->", self.knots[0], [self.arg_expr() for _ in range(self.knot_params.get(self.knots[0], 0))]]],
              "choices": []}]
        thknots = [self.thread_knot(n) for n in thknots]
        for k in knots:
            for w in [k["body"]] + [st["body"] for st in k["stitches"]]:
                for sec in open_gathers(w, False):
                    sec["stmts"].append(["->", r.choice(["END", "DONE"]), []])     # B2
        return {"globals": [[g[0], g[2]] for g in self.globals], "root": root,
                "knots": knots + thknots + tknots + fknots}

    def knot(self, name, index):
        r = self.r
        self.cur_knot = index
        stitches = []
        if self.p(0.25) and self.has("stitch") and not self.knot_params.get(name):
            ns = r.randint(1, 2)
            names = [f"s{index}_{j}" for j in range(ns)]
            own = self.p(0.6)
            for sn in names:
                self.count_paths.append(name + "." + sn)
            body = []
            if own:
                body = [{"label": None, "stmts": self.simple_stmts(r.randint(1, 2), knot_index=index) +
                         [["->", name + "." + r.choice(names), []]], "choices": []}]
            for j, sn in enumerate(names):
                sb = self.weave(name + "." + sn, index, 1, final=True)
                stitches.append({"name": sn, "params": [], "body": sb})
            return {"name": name, "params": [], "function": False, "body": body, "stitches": stitches}
        self.cur_knot = index
        params = ["p" + str(index)] if self.knot_params.get(name) else []
        scope = tuple(params)
        pre = []
        if self.p(0.3) and self.has("temp"):
            tname = "t" + name
            pre = [["temp", tname, self.int_expr(1, scope)]]
            scope = scope + (tname,)
        body = self.weave(name, index, 1, final=True, scope=scope)
        body[0]["stmts"] = pre + body[0]["stmts"]
        return {"name": name, "params": params, "function": False, "body": body, "stitches": []}

    def thread_knot(self, name):
        """a knot to be run with `<- name`: text, then choices whose content diverts on explicitly"""
        r = self.r
        stmts = self.simple_stmts(r.randint(0, 2), in_function=True)
        choices = []
        for _ in range(r.randint(1, 2)):
            body = [{"label": None, "stmts": self.simple_stmts(r.randint(0, 1), in_function=True) +
                     [self.exit_divert(None)], "choices": []}]
            choices.append({"id": self.fresh_id(), "sticky": self.p(0.3), "label": None,
                            "cond": self.bool_expr(1) if self.p(0.3) else None,
                            "start": [["t", self.words().capitalize()]], "bracket": [], "end": [],
                            "body": body, "brackets": False})
        return {"name": name, "params": [], "function": False,
                "body": [{"label": None, "stmts": stmts, "choices": choices}], "stitches": []}

    def tunnel_knot(self, name):
        stmts = self.simple_stmts(self.r.randint(1, 2), in_function=True)
        stmts.append(["->->"])
        return {"name": name, "params": [], "function": False,
                "body": [{"label": None, "stmts": stmts, "choices": []}], "stitches": []}

    def function(self, name):
        r = self.r
        nparams = r.choice([1, 1, 2])
        params = ["a", "b"][:nparams]
        prints = self.p(0.5) and self.has("function_text")
        stmts = []
        saved_off = set(self.off)
        self.off |= {"tunnel", "function", "block_cond"} if not self.p(0.3) else {"tunnel", "function"}
        if not self.has("once_seq_in_function"):
            self.off.add("once_seq")         # B14: an exhausted once-only sequence corrupts the evaluation stack
        void = prints and self.p(0.4)
        printers = [f for f in self.functions if f[2]] + [(f[0], f[1], True) for f in self.vfunctions]
        for _ in range(r.randint(0, 2) if not void else r.randint(1, 3)):
            if prints and printers and self.p(0.35):
                # a line that begins with the text of another function (the outer function has printed nothing yet)
                g = r.choice(printers)
                parts = [["p", ["call", g[0], [self.int_expr(1, params) for _ in range(g[1])]]]]
                if self.p(0.4):
                    parts.append(["t", " " + self.words()])
                stmts.append(["line", parts])
            elif prints and self.p(0.6):
                stmts.append(self.line(params, in_function=True))
            else:
                stmts.append(self.assignment(params))
        self.off = saved_off
        if void:
            self.vfunctions.append((name, nparams))
            return {"name": name, "params": params, "function": True,
                    "body": [{"label": None, "stmts": stmts, "choices": []}], "stitches": []}
        stmts.append(["ret", self.int_expr(0, params)])
        self.functions.append((name, nparams, prints))
        return {"name": name, "params": params, "function": True,
                "body": [{"label": None, "stmts": stmts, "choices": []}], "stitches": []}


def closed_line(stmt):
    """a content line that ends with its line break (not tags only, no divert at its end)"""
    parts = stmt[1]
    return bool(parts) and not all(p[0] == "tag" for p in parts) and parts[-1][0] not in ("->", "tunnel")


def merge_text(parts):
    """Adjacent text parts become one (the AST has no two text parts in a row)."""
    out = []
    for p in parts:
        if p[0] == "t" and out and out[-1][0] == "t":
            out[-1] = ["t", out[-1][1] + p[1]]
        elif p[0] == "t" and p[1] == "":
            continue
        else:
            out.append(p)
    return out


def generate(seed, size=3, on=(), off=()):
    g = Gen(seed, size, on, off)
    return g.program()


# ---------------------------------------------------------------------------- rendering

BINOPS = {"add": "+", "sub": "-", "mul": "*", "div": "/", "mod": "%", "eq": "==", "ne": "!=",
          "lt": "<", "le": "<=", "gt": ">", "ge": ">=", "and": "and", "or": "or"}


def render_val(v):
    if "i" in v:
        return str(v["i"])
    if "b" in v:
        return "true" if v["b"] else "false"
    return '"' + v["s"] + '"'


def render_expr(e, top=False):
    k = e[0]
    if k == "lit":
        s = render_val(e[1])
        return "(" + s + ")" if s.startswith("-") and not top else s
    if k == "var":
        return e[1]
    if k == "reads":
        return e[1]
    if k == "turnsSince":
        return "TURNS_SINCE(-> " + e[1] + ")"
    if k == "choiceCount":
        return "CHOICE_COUNT()"
    if k == "turns":
        return "TURNS()"
    if k == "un":
        if e[1] == "not":
            # never "(name)": the repo compiler reads that as a list literal (known deviation)
            return "not " + render_expr(e[2])
        return "-(" + render_expr(e[2], True) + ")"
    if k == "bin":
        s = render_expr(e[2]) + " " + BINOPS[e[1]] + " " + render_expr(e[3])
        return s if top else "(" + s + ")"
    if k == "call":
        return e[1] + "(" + ", ".join(render_expr(a, True) for a in e[2]) + ")"
    raise ValueError(e)


def render_cond(e):
    """a condition must not end in "()": the repo compiler takes that for a call (known deviation)"""
    s = render_expr(e, True)
    return "(" + s + ")" if s.endswith("()") else s


def render_target(t, args):
    s = "-> " + t
    if args:
        s += "(" + ", ".join(render_expr(a, True) for a in args) + ")"
    return s


def render_inline(parts):
    out = ""
    for p in parts:
        k = p[0]
        if k == "t":
            out += p[1]
        elif k == "p":
            out += "{" + render_expr(p[1], True) + "}"
        elif k == "glue":
            out += "<>"
        elif k == "tag":
            out += "# " + p[1] + " "
        elif k == "->":
            out += render_target(p[1], p[2] if len(p) > 2 else [])
        elif k == "tunnel":
            out += render_target(p[1], p[2]) + " ->"
        elif k == "if":
            out += "{" + render_cond(p[1]) + ":" + render_inline(p[2])
            if p[3]:
                out += "|" + render_inline(p[3])
            out += "}"
        elif k == "seq":
            mark = {"stopping": "", "cycle": "&", "once": "!"}[p[2]]
            out += "{" + mark + "|".join(render_inline(a) for a in p[3]) + "}"
        else:
            raise ValueError(p)
    return out


def render_stmt(s, ind):
    p = " " * ind
    k = s[0]
    if k == "line":
        return [p + render_inline(s[1]).rstrip(" ")]
    if k == "set":
        if len(s) > 3 and s[3] in ("+=", "-=") and s[2][0] == "bin" and s[2][2] == ["var", s[1]]:
            return [p + "~ " + s[1] + " " + s[3] + " " + render_expr(s[2][3], True)]
        return [p + "~ " + s[1] + " = " + render_expr(s[2], True)]
    if k == "temp":
        return [p + "~ temp " + s[1] + " = " + render_expr(s[2], True)]
    if k == "ret":
        return [p + "~ return" + ("" if s[1] is None else " " + render_expr(s[1], True))]
    if k == "run":
        return [p + "~ " + render_expr(s[1], True)]
    if k == "->":
        return [p + render_target(s[1], s[2] if len(s) > 2 else [])]
    if k == "tunnel":
        return [p + render_target(s[1], s[2]) + " ->"]
    if k == "->->":
        return [p + "->->"]
    if k == "thread":
        return [p + "<- " + s[1]]
    if k == "cond":
        branches, other = s[1], s[2]
        out = []
        if len(branches) == 1:
            out.append(p + "{ " + render_cond(branches[0][0]) + ":")
            for b in branches[0][1]:
                out += render_stmt(b, ind + 4)
            if other:
                out.append(p + "- else:")
                for b in other:
                    out += render_stmt(b, ind + 4)
        else:
            out.append(p + "{")
            for c, body in branches:
                out.append(p + "- " + render_cond(c) + ":")
                for b in body:
                    out += render_stmt(b, ind + 4)
            if other:
                out.append(p + "- else:")
                for b in other:
                    out += render_stmt(b, ind + 4)
        out.append(p + "}")
        return out
    raise ValueError(s)


def render_choice_head(c):
    s = ""
    if c.get("label"):
        s += "(" + c["label"] + ") "
    if c.get("cond") is not None:
        s += "{" + render_cond(c["cond"]) + "} "
    start, bracket, end = c["start"], c["bracket"], c["end"]
    if not start and not bracket:
        # fallback
        s += "->"
        if end:
            tgt = render_inline(end)
            s += tgt[2:]
        return s
    s += render_inline(start)
    if c.get("brackets", bool(bracket)):
        s += "[" + render_inline(bracket).rstrip(" ") + "]"
    s += render_inline(end)
    return s


def render_weave(secs, ind, level):
    out = []
    p = " " * ind
    for i, sec in enumerate(secs):
        stmts = sec["stmts"]
        if i > 0 or sec.get("label"):
            g = p + " ".join("-" * level)
            if sec.get("label"):
                g += " (" + sec["label"] + ")"
            elif stmts and stmts[0][0] == "line" and stmts[0][1] and stmts[0][1][0][0] == "t":
                g += " " + render_stmt(stmts[0], 0)[0]
                stmts = stmts[1:]
            out.append(g)
        for s in stmts:
            out += render_stmt(s, ind)
        for c in sec["choices"]:
            marker = " ".join(("+" if c["sticky"] else "*") * level)
            out.append((p + marker + " " + render_choice_head(c)).rstrip(" "))
            out += render_weave(c["body"], ind + 4, level + 1)
    return out


def render(ast):
    out = []
    for name, v in ast["globals"]:
        out.append("VAR " + name + " = " + render_val(v))
    out += render_weave(ast["root"], 0, 1)
    for k in ast["knots"]:
        sig = k["name"]
        if k.get("function") or k.get("params"):
            sig += "(" + ", ".join(k["params"]) + ")"
        out.append("")
        out.append("=== " + ("function " if k.get("function") else "") + sig + " ===")
        out += render_weave(k["body"], 0, 1)
        for st in k.get("stitches", []):
            out.append("= " + st["name"] + ("(" + ", ".join(st["params"]) + ")" if st.get("params") else ""))
            out += render_weave(st["body"], 0, 1)
    return "\n".join(out) + "\n"


def has_seq(parts, kind=None):
    for p in parts:
        if p[0] == "seq" and (kind is None or p[2] == kind or any(has_seq(a, kind) for a in p[3])):
            return True
        if p[0] == "if" and (has_seq(p[2], kind) or has_seq(p[3], kind)):
            return True
    return False


def has_call(e):
    if e[0] == "call":
        return True
    if e[0] == "un":
        return has_call(e[2])
    if e[0] == "bin":
        return has_call(e[2]) or has_call(e[3])
    return False


def open_gathers(weave, has_after, top=True):
    """Sections that are gathers at which the flow of a knot / stitch runs out (B2)."""
    out = []
    for i, sec in enumerate(weave):
        last = i == len(weave) - 1
        after_here = has_after or not last
        for c in sec["choices"]:
            out += open_gathers(c["body"], after_here, False)
        if last and not has_after and (i > 0 or sec.get("label")) and not sec["choices"]:
            st = sec["stmts"]
            closed = bool(st) and (st[-1][0] in ("->", "->->") or
                                   (st[-1][0] == "line" and st[-1][1] and st[-1][1][-1][0] == "->"))
            if not closed:
                out.append(sec)
    return out


def has_if(parts):
    for p in parts:
        if p[0] == "if":
            return True
        if p[0] == "seq" and any(has_if(a) for a in p[3]):
            return True
    return False


def wellformed(ast, on=()):
    """References resolve, knots have content, restricted shapes are absent: used by the shrinker
    to stay inside the generator's language."""
    def allow(shape):
        return shape in on

    globs = {g[0] for g in ast["globals"]}
    knots = {k["name"]: k for k in ast["knots"]}
    paths, gathers = set(), set()
    temps = set()

    def scan_weave(w, prefix):
        for i, sec in enumerate(w):
            if sec.get("label"):
                paths.add(prefix + sec["label"])
                gathers.add(prefix + sec["label"])
            for c in sec["choices"]:
                if c.get("label"):
                    paths.add(prefix + c["label"])
                scan_weave(c["body"], prefix)

    def weave_empty(w):
        return all(not sec["stmts"] and not sec["choices"] for sec in w)

    scan_weave(ast["root"], "")
    for k in ast["knots"]:
        paths.add(k["name"])
        if weave_empty(k["body"]) and not k.get("stitches"):
            return False
        scan_weave(k["body"], k["name"] + ".")
        for st in k.get("stitches", []):
            paths.add(k["name"] + "." + st["name"])
            if weave_empty(st["body"]):
                return False
            scan_weave(st["body"], k["name"] + "." + st["name"] + ".")
    ok = [True]

    def expr(e, scope):
        k = e[0]
        if k == "var":
            if e[1] not in globs and e[1] not in scope and e[1] not in temps:
                ok[0] = False
        elif k in ("reads", "turnsSince"):
            if e[1] not in paths:
                ok[0] = False
        elif k == "un":
            expr(e[2], scope)
        elif k == "bin":
            expr(e[2], scope)
            expr(e[3], scope)
        elif k == "call":
            f = knots.get(e[1])
            if f is None or not f.get("function") or len(f["params"]) != len(e[2]):
                ok[0] = False
            for a in e[2]:
                expr(a, scope)

    def target(t, args, scope):
        if t not in ("END", "DONE"):
            if t not in knots and t not in gathers and not (t in paths and t.count(".") == 1 and
                                                            t.split(".")[0] in knots and
                                                            any(st["name"] == t.split(".")[1]
                                                                for st in knots[t.split(".")[0]].get("stitches", []))):
                ok[0] = False
            if t in knots and knots[t].get("function"):
                ok[0] = False
            if t in knots and len(knots[t]["params"]) != len(args):
                ok[0] = False
        for a in args:
            expr(a, scope)

    def inl(parts, scope):
        for p in parts:
            k = p[0]
            if k == "p":
                expr(p[1], scope)
            elif k == "if":
                expr(p[1], scope)
                inl(p[2], scope)
                inl(p[3], scope)
            elif k == "seq":
                if len(p[3]) < 2:
                    ok[0] = False
                for a in p[3]:
                    inl(a, scope)
            elif k in ("->", "tunnel"):
                target(p[1], p[2] if len(p) > 2 else [], scope)

    def stmts(ss, scope):
        for i, s in enumerate(ss):
            k = s[0]
            if k == "cond" and len(s[1]) > 1 and not allow("switch_after_open_line"):
                if not (i > 0 and ss[i - 1][0] == "line" and closed_line(ss[i - 1])):
                    ok[0] = False
                if any(has_call(c) for c, _ in s[1]):
                    ok[0] = False
            if k == "line":
                if not s[1]:
                    ok[0] = False
                elif s[1][0][0] == "tag" and s[1][-1][0] in ("->", "tunnel") and not allow("tagline_divert"):
                    ok[0] = False      # B11: "# tag -> knot" on a line without text
                elif (s[1][0][0] == "t" and s[1][0][1].startswith(" ")) or \
                        (s[1][-1][0] == "t" and s[1][-1][1].endswith(" ")):
                    ok[0] = False      # blanks at the ends of a line are not part of the text
                inl(s[1], scope)
            elif k == "set":
                if s[1] not in globs and s[1] not in temps and s[1] not in scope:
                    ok[0] = False
                if len(s) > 3 and has_call(s[2]) and not allow("plus_equals_call"):
                    ok[0] = False
                expr(s[2], scope)
            elif k == "temp":
                temps.add(s[1])
                expr(s[2], scope)
            elif k == "ret":
                if s[1] is not None:
                    expr(s[1], scope)
            elif k == "run":
                expr(s[1], scope)
            elif k in ("->", "tunnel"):
                target(s[1], s[2] if len(s) > 2 else [], scope)
            elif k == "thread":
                target(s[1], [], scope)
            elif k == "cond":
                if not s[1]:
                    ok[0] = False
                for c, body in s[1]:
                    expr(c, scope)
                    if not body:
                        ok[0] = False
                    stmts(body, scope)
                stmts(s[2], scope)

    def weave(w, scope):
        for i, sec in enumerate(w):
            if i > 0 and not sec.get("label"):
                st0 = sec["stmts"][0] if sec["stmts"] else None
                if not (st0 and st0[0] == "line" and st0[1] and st0[1][0][0] == "t"):
                    ok[0] = False      # bare "-" gather (known deviation of the repo compiler)
            stmts(sec["stmts"], scope)
            if any(not c["start"] and not c["bracket"] for c in sec["choices"]) and \
                    not allow("fallback_after_open_line"):
                if not (sec["stmts"] and sec["stmts"][-1][0] == "line" and closed_line(sec["stmts"][-1])):
                    ok[0] = False
            for c in sec["choices"]:
                if c.get("cond") is not None:
                    expr(c["cond"], scope)
                for key in ("start", "bracket", "end"):
                    inl(c[key], scope)
                if c.get("brackets") and not c["start"] and not c["bracket"]:
                    ok[0] = False
                if not c.get("brackets") and any(p[0] == "tag" for p in c["start"]) and \
                        not allow("tag_in_plain_choice"):
                    ok[0] = False
                if c.get("brackets") and not c["bracket"] and any(p[0] == "tag" for p in c["start"]) and \
                        not allow("tag_before_empty_brackets"):
                    ok[0] = False
                if c["end"] and c["end"][-1][0] == "->" and c["end"][-1][1] not in ("END", "DONE") and \
                        not allow("choice_text_divert"):
                    form_b = c.get("brackets") and not c["start"] and all(p[0] != "t" or p[1].strip() == ""
                                                                          for p in c["end"][:-1])
                    form_s_e = c.get("brackets") and not c["bracket"]
                    is_fallback = not c["start"] and not c["bracket"]
                    if not (form_b or form_s_e or is_fallback):
                        ok[0] = False
                if c["end"] and c["end"][-1][0] == "->" and not c["start"] and \
                        any(p[0] == "tag" for p in c["end"]) and not allow("bracket_end_tag_divert"):
                    ok[0] = False
                if (has_if(c["start"]) or has_if(c["bracket"])) and not allow("cond_in_choice_text"):
                    ok[0] = False
                if (has_seq(c["start"], "once") or has_seq(c["bracket"], "once")) and \
                        not allow("once_seq_in_choice_text"):
                    ok[0] = False
                shown0 = (c["start"] or c["bracket"])
                if shown0 and shown0[0][0] == "t" and shown0[0][1].strip() == "":
                    ok[0] = False          # a choice needs text to show
                if has_seq(c["start"]) and not allow("seq_in_choice_start"):
                    ok[0] = False
                first = c["start"] or (c["bracket"] if c.get("brackets") else [])
                if first and first[0][0] != "t":
                    ok[0] = False          # "* {x}" would be a condition
                if not c["start"] and not c["bracket"] and not c["end"] and weave_empty(c["body"]):
                    ok[0] = False          # an empty fallback choice
                if not c["start"] and not c["bracket"] and not c["end"] and c.get("cond") is not None \
                        and not allow("cond_fallback_body"):
                    ok[0] = False
                weave(c["body"], scope)

    def nested_labels(w, top=True):
        for sec in w:
            if not top and sec.get("label"):
                return True
            for c in sec["choices"]:
                if (not top and c.get("label")) or nested_labels(c["body"], False):
                    return True
        return False

    def bad_opening(w):
        return bool(w) and w[0].get("label") and not allow("nested_label_after_opening_gather") and \
            any(nested_labels(c["body"], False) for sec in w for c in sec["choices"])

    def ends_open_gather(w):
        """top-level weave whose last section is a gather that lets the flow run out (REPORT.md B2)"""
        if not w:
            return False
        sec = w[-1]
        if not (len(w) > 1 or sec.get("label")) or sec["choices"]:
            return False
        if not sec["stmts"]:
            return True
        last = sec["stmts"][-1]
        if last[0] in ("->", "->->"):
            return False
        if last[0] == "line" and last[1] and last[1][-1][0] == "->":
            return False
        return True

    if not allow("once_seq_in_function"):
        for k in ast["knots"]:
            if k.get("function"):
                def lines_of(ss):
                    for st in ss:
                        if st[0] == "line":
                            yield st[1]
                        elif st[0] == "cond":
                            for _, b in st[1]:
                                yield from lines_of(b)
                            yield from lines_of(st[2])
                for sec in k["body"]:
                    if any(has_seq(l, "once") for l in lines_of(sec["stmts"])):
                        return False
    if not allow("root_fallback_body"):
        for sec in ast["root"]:
            for c in sec["choices"]:
                if not c["start"] and not c["bracket"] and not c["end"]:
                    return False
    weave(ast["root"], ())
    if len(ast["root"]) > 1 and ast["root"][-1]["choices"] and not allow("root_choices_after_gather"):
        return False
    for k in ast["knots"]:
        weave(k["body"], tuple(k["params"]))
        if not k.get("function") and open_gathers(k["body"], False):
            return False
        if bad_opening(k["body"]) or any(bad_opening(st["body"]) for st in k.get("stitches", [])):
            return False
        for st in k.get("stitches", []):
            weave(st["body"], tuple(k["params"]) + tuple(st.get("params", [])))
            if open_gathers(st["body"], False):
                return False
    return ok[0]


def meta(ast):
    counted = []
    for k in ast["knots"]:
        counted.append(k["name"])
        for st in k.get("stitches", []):
            counted.append(k["name"] + "." + st["name"])
    return {"globals": [g[0] for g in ast["globals"]], "counted": counted}


if __name__ == "__main__":
    seed = int(sys.argv[1]) if len(sys.argv) > 1 else 1
    size = int(sys.argv[2]) if len(sys.argv) > 2 else 3
    a = generate(seed, size)
    if len(sys.argv) > 3 and sys.argv[3] == "json":
        print(json.dumps(a))
    else:
        print(render(a))
